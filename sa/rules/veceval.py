"""A small symbolic evaluator for straight-line geometry code over Point<2>/Point<3> and doubles.

Values are sympy terms (scalars) or tuples of sympy terms (points).  Statements are folded in order; branches are resolved by
`choose(condition_value, node) -> True / False`; an undecided branch raises AnalysisBroken (the caller declines).  Used by the
rules that compare a block of the slab-frame kernel with the elementary construction it implements."""
import sympy as sp

from .. import astq, norm
from ..astq import sc
from ..tu import AnalysisBroken

EPS = sp.Symbol("eps", positive=True)


class Undecided(AnalysisBroken):
    pass


class _Return(Exception):
    def __init__(self, value):
        Exception.__init__(self, "return")
        self.value = value


class VecEval:
    def __init__(self, P, F, env=None, choose=None, opaque=None, inline=None):
        self.P, self.F = P, F
        self.inline = inline                 # inline(qualified name) -> True: evaluate the callee's body with the argument values
        self.opaque = opaque                 # opaque(qualified name) -> True: keep the call as an uninterpreted function of its arguments
        self.env = dict(env or {})          # decl key -> value
        self.choose = choose or (lambda v, n: None)
        self.trace = []                      # (condition value, truth) decided on the way

    # ---- expressions -------------------------------------------------------------------------
    def is_point_type(self, t):
        return "Point<" in (t or "") and "vector" not in (t or "")

    def ev(self, n, depth=0):
        if n is None:
            raise AnalysisBroken("null expression")
        if depth > 120:
            raise AnalysisBroken("expression too deep")
        P = self.P
        k = n.get("k")
        c = [x for x in (n.get("c") or [])]
        r = lambda x: self.ev(x, depth + 1)
        if k == "IntegerLiteral":
            return sp.Integer(n["v"])
        if k == "FloatingLiteral":
            try:
                return sp.Rational(str(n.get("vs", n["v"])))
            except Exception:
                return sp.Float(n["v"])
        if k == "CXXBoolLiteralExpr":
            return sp.true if n["v"] else sp.false
        if k in ("ParenExpr", "ImplicitCastExpr", "ExprWithCleanups", "MaterializeTemporaryExpr", "CXXBindTemporaryExpr", "CXXFunctionalCastExpr",
                 "CXXStaticCastExpr", "CStyleCastExpr", "ConstantExpr") or k in norm.CASTS:
            return r(c[0])
        if k == "DeclRefExpr":
            key = n["r"]
            if key in self.env:
                return self.env[key]
            d = P.d(key)
            qn = d.get("qn", "") or ""
            if qn == "WorldBuilder::Consts::PI":
                return sp.pi
            if d.get("k") == "EnumConstant":
                return sp.Symbol(qn or n["n"])
            if self.is_point_type(d.get("t")):
                raise AnalysisBroken("point `%s` has no symbolic value" % n.get("n"))
            return sp.Symbol(n.get("n", "?"), real=True)
        if k == "MemberExpr":
            return sp.Symbol(norm.render(P, n, nocast=True), real=True)
        s = astq.subscript(n)
        if s:
            b = r(s[0])
            i = r(s[1])
            if isinstance(b, tuple) and i.is_Integer:
                return b[int(i)]
            if not isinstance(b, tuple) and not isinstance(i, tuple):
                return sp.Function("at")(b, i)          # an element of something this evaluator has no value for
            raise AnalysisBroken("subscript of %s" % norm.render(P, n)[:40])
        if k in ("CXXConstructExpr", "CXXTemporaryObjectExpr"):
            args = [a for a in c if a is not None and a.get("k") != "CXXDefaultArgExpr" and "CoordinateSystem" not in (sc(a).get("t") or "")]
            if self.is_point_type(n.get("t")):
                dim = int(n["t"].split("Point<")[1][0])
                if not args:
                    return tuple(sp.Integer(0) for _ in range(dim))
                vals = [r(a) for a in args]
                if len(vals) == 1 and isinstance(vals[0], tuple):
                    return vals[0]
                if len(vals) == dim and not any(isinstance(v, tuple) for v in vals):
                    return tuple(vals)
                raise AnalysisBroken("Point constructor %s" % norm.render(P, n)[:50])
            if len(args) == 1:
                return r(args[0])
            if "array<double" in (n.get("t") or "") and args:
                return tuple(r(a) for a in args)
            if "array<" in (n.get("t") or "") and not args:
                import re as _re
                t_ = (n.get("t") or "").replace("std::", "").replace("const ", "")
                m2 = _re.match(r"^array<array<double, (\d+)>, (\d+)>", t_)
                if m2:
                    return tuple(tuple(sp.Symbol("uninitialised_%d_%d_%d" % (n.get("i", 0), a_, b_)) for b_ in range(int(m2.group(1)))) for a_ in range(int(m2.group(2))))
                m1 = _re.match(r"^array<double, (\d+)>", t_)
                if m1:
                    return tuple(sp.Symbol("uninitialised_%d_%d" % (n.get("i", 0), q)) for q in range(int(m1.group(1))))
            raise AnalysisBroken("constructor %s" % norm.render(P, n)[:50])
        if k == "UnaryOperator":
            v = r(c[0])
            op = n.get("op")
            if op == "-":
                return tuple(-x for x in v) if isinstance(v, tuple) else -v
            if op == "+":
                return v
            if op == "!":
                return sp.Not(v)
            raise AnalysisBroken("unary %s" % op)
        if k in ("BinaryOperator",) or (k == "CXXOperatorCallExpr" and len(c) == 3 and n.get("op") in ("+", "-", "*", "/")) or \
                (k == "CXXOperatorCallExpr" and len(c) == 2 and n.get("op") in ("+", "-", "*", "/")):
            op = n.get("op")
            if k == "CXXOperatorCallExpr":
                ops = [x for x in c if x is not None]
                # the callee reference is the first child for operator calls
                ops = ops[-2:]
                a, b = r(ops[0]), r(ops[1])
            else:
                if op in ("&&", "||"):
                    a, b = r(c[0]), r(c[1])
                    try:
                        return sp.And(a, b) if op == "&&" else sp.Or(a, b)
                    except TypeError:
                        return sp.Function("land" if op == "&&" else "lor")(a, b)
                a, b = r(c[0]), r(c[1])
            ta, tb = isinstance(a, tuple), isinstance(b, tuple)
            if op in ("+", "-"):
                if ta and tb:
                    return tuple((x + y) if op == "+" else (x - y) for x, y in zip(a, b))
                if not ta and not tb:
                    return a + b if op == "+" else a - b
            if op == "*":
                if ta and tb:
                    return sum(x * y for x, y in zip(a, b))
                if ta:
                    return tuple(x * b for x in a)
                if tb:
                    return tuple(a * y for y in b)
                return a * b
            if op == "/":
                if ta and not tb:
                    return tuple(x / b for x in a)
                if not ta and not tb:
                    return a / b
            if op in ("<", "<=", ">", ">=", "==", "!=") and not ta and not tb:
                return {"<": sp.Lt, "<=": sp.Le, ">": sp.Gt, ">=": sp.Ge, "==": sp.Eq, "!=": sp.Ne}[op](a, b, evaluate=False)
            raise AnalysisBroken("operator %s on %s" % (op, norm.render(P, n)[:50]))
        if k == "CXXOperatorCallExpr" and n.get("op") == "-" and len([x for x in c if x is not None]) == 2:
            v = r([x for x in c if x is not None][-1])
            return tuple(-x for x in v) if isinstance(v, tuple) else -v
        if k == "CXXMemberCallExpr":
            me = c[0]
            nm = me.get("n")
            base = me.get("c", [None])[0] if me.get("k") == "MemberExpr" else None
            if base is not None and nm in ("norm", "norm_square"):
                v = r(base)
                if isinstance(v, tuple):
                    q = sum(x ** 2 for x in v)
                    return sp.sqrt(q) if nm == "norm" else q
            if nm in ("get_array",) and base is not None:
                v = r(base)
                if isinstance(v, tuple):
                    return v
            if nm in ("get_coordinate_system",) and base is not None:
                return sp.Symbol("coordinate_system_of_" + norm.render(P, base, nocast=True))
            d_ = P.d(n.get("callee")) if n.get("callee") else {}
            if self.opaque is not None and self.opaque(d_.get("qn", "") or ""):
                flat = []
                for a in c[1:]:
                    if a is None or a.get("k") == "CXXDefaultArgExpr":
                        continue
                    v = r(a)
                    flat += list(v) if isinstance(v, tuple) else [v]
                return sp.Function(d_.get("n", "f"))(*flat)
            raise AnalysisBroken("member call %s" % norm.render(P, n)[:50])
        if k == "CallExpr":
            d = P.d(n.get("callee")) if n.get("callee") else {}
            qn = d.get("qn", "") or ""
            nm = d.get("n", "")
            args = [r(a) for a in c[1:] if a is not None and a.get("k") != "CXXDefaultArgExpr"]
            base = qn.replace("std::", "")
            table = {"sin": sp.sin, "cos": sp.cos, "tan": sp.tan, "fabs": sp.Abs, "abs": sp.Abs, "sqrt": sp.sqrt, "acos": sp.acos, "asin": sp.asin,
                     "atan2": sp.atan2, "atan": sp.atan, "exp": sp.exp}
            if base in table and all(not isinstance(a, tuple) for a in args):
                return table[base](*args)
            if base == "copysign" and len(args) == 2 and not any(isinstance(a, tuple) for a in args):
                return sp.Abs(args[0]) * sp.sign(args[1])
            if base == "hypot" and len(args) == 2 and not any(isinstance(a, tuple) for a in args):
                return sp.sqrt(args[0] ** 2 + args[1] ** 2)
            if base in ("floor", "ceil") and len(args) == 1 and not isinstance(args[0], tuple):
                return (sp.floor if base == "floor" else sp.ceiling)(args[0])
            if "numeric_limits" in qn:
                if nm == "infinity":
                    return sp.oo
                if nm in ("epsilon", "min"):
                    return EPS
            if base == "pow" and len(args) == 2:
                return args[0] ** args[1]
            if base in ("min", "max") and len(args) == 2:
                return (sp.Min if base == "min" else sp.Max)(*args)
            if self.inline is not None and self.inline(qn) and n.get("callee") in P.funcs and P.funcs[n["callee"]].body is not None and depth < 60:
                G = P.funcs[n["callee"]]
                if len(G.params) == len(args):
                    sub = VecEval(P, G, env=dict(zip(G.params, args)), choose=self.choose, opaque=self.opaque, inline=self.inline)
                    return sub.run_function(astq.stmts_of(G.body))
            if self.opaque is not None and self.opaque(qn):
                flat = []
                for a in args:
                    flat += list(a) if isinstance(a, tuple) else [a]
                return sp.Function(nm or "f")(*flat)
            if (qn.startswith("std::") or "::" not in qn) and nm and all(not isinstance(a, tuple) for a in args):
                return sp.Function(nm)(*args)       # a library function of scalars this evaluator does not interpret: kept symbolic
            raise AnalysisBroken("call to %s" % (qn or "?"))
        if k == "InitListExpr":
            vals = [r(x) for x in c if x is not None]
            if len(vals) == 1 and isinstance(vals[0], tuple):
                return vals[0]
            if vals and not any(isinstance(v, tuple) for v in vals):
                return tuple(vals)
            if vals and all(isinstance(v, tuple) for v in vals):
                return tuple(vals)          # rows of a matrix
            raise AnalysisBroken("initialiser list %s" % norm.render(P, n)[:40])
        if k == "ConditionalOperator":
            cv = r(c[0])
            t = self.decide(cv, c[0])
            return r(c[1] if t else c[2])
        if k in ("SubstNonTypeTemplateParmExpr", "CXXDefaultArgExpr", "CXXDefaultInitExpr") and len([x for x in c if x is not None]) == 1:
            return r([x for x in c if x is not None][0])
        raise AnalysisBroken("expression kind %s (%s)" % (k, norm.render(P, n)[:40]))

    def decide(self, cv, node):
        if cv is sp.true or cv is True:
            return True
        if cv is sp.false or cv is False:
            return False
        if not getattr(cv, "free_symbols", True):
            try:
                v = cv.doit() if hasattr(cv, "doit") else cv
                v = sp.simplify(v)
                if v in (sp.true, sp.false):
                    return v == sp.true
            except Exception:
                pass
        t = self.choose(cv, node)
        if t is None:
            raise Undecided("undecided condition `%s` (%s)" % (norm.render(self.P, node)[:70], str(cv)[:80]))
        self.trace.append((cv, t))
        return t

    # ---- statements --------------------------------------------------------------------------
    def assign_to(self, lhs, val, op="="):
        lhs0 = sc(lhs)
        # X[i][j]... = v on (nested) tuples with concrete indices
        chain = []
        cur_ = lhs0
        while True:
            s_ = astq.subscript(cur_)
            if not s_:
                break
            chain.append(s_[1])
            cur_ = sc(s_[0])
        if len(chain) >= 2 and cur_ is not None and cur_.get("k") == "DeclRefExpr" and isinstance(self.env.get(cur_["r"]), tuple):
            idx = [self.ev(i_) for i_ in reversed(chain)]
            if all(getattr(i_, "is_Integer", False) for i_ in idx):
                def upd(t, path):
                    k_ = int(path[0])
                    if len(path) == 1:
                        return tuple(self.combine(t[q], val, op) if q == k_ else t[q] for q in range(len(t)))
                    return tuple(upd(t[q], path[1:]) if q == k_ else t[q] for q in range(len(t)))
                self.env[cur_["r"]] = upd(self.env[cur_["r"]], idx)
                return
        s = astq.subscript(lhs0)
        if s:
            b = sc(s[0])
            i = self.ev(s[1])
            if b.get("k") == "DeclRefExpr" and i.is_Integer:
                cur = self.env.get(b["r"])
                if not isinstance(cur, tuple):
                    raise AnalysisBroken("component store into unknown point %s" % b.get("n"))
                i = int(i)
                new = self.combine(cur[i], val, op)
                self.env[b["r"]] = tuple(new if j == i else x for j, x in enumerate(cur))
                return
            raise AnalysisBroken("store to %s" % norm.render(self.P, lhs)[:40])
        if lhs0.get("k") == "DeclRefExpr":
            cur = self.env.get(lhs0["r"])
            self.env[lhs0["r"]] = self.combine(cur, val, op)
            return
        raise AnalysisBroken("store to %s" % norm.render(self.P, lhs)[:40])

    def combine(self, cur, val, op):
        if op == "=":
            return val
        if cur is None:
            raise AnalysisBroken("compound assignment to a variable without a symbolic value")
        tc, tv = isinstance(cur, tuple), isinstance(val, tuple)
        f = {"+=": lambda a, b: a + b, "-=": lambda a, b: a - b, "*=": lambda a, b: a * b, "/=": lambda a, b: a / b}[op]
        if tc and tv and op in ("+=", "-="):
            return tuple(f(a, b) for a, b in zip(cur, val))
        if tc and not tv and op in ("*=", "/="):
            return tuple(f(a, val) for a in cur)
        if not tc and not tv:
            return f(cur, val)
        raise AnalysisBroken("compound assignment %s on mixed values" % op)

    def run(self, stmts):
        for s in stmts:
            self.stmt(s)

    def stmt(self, s):
        if s is None:
            return
        k = s.get("k")
        if k == "CompoundStmt":
            self.run(s["c"])
        elif k == "DeclStmt":
            for v in s["c"]:
                if v.get("k") == "VarDecl":
                    if v.get("c"):
                        self.env[v["r"]] = self.ev(v["c"][0])
                    elif self.is_point_type(v.get("t")):
                        self.env[v["r"]] = None
                    elif "array<double, " in (v.get("t") or ""):
                        try:
                            n_ = int((v.get("t") or "").split("array<double, ")[1].split(">")[0])
                            self.env[v["r"]] = tuple(sp.Symbol("uninitialised_%s_%d" % (v.get("n"), q)) for q in range(n_))
                        except Exception:
                            pass
        elif k == "IfStmt":
            cv = self.ev(s["c"][0])
            t = self.decide(cv, s["c"][0])
            br = s["c"][1] if t else (s["c"][2] if len(s["c"]) > 2 else None)
            if br is not None:
                self.stmt(br)
        elif k in ("BinaryOperator", "CompoundAssignOperator", "CXXOperatorCallExpr") and s.get("op") in norm.ASSIGN_OPS:
            kids = [x for x in s["c"] if x is not None]
            lhs, rhs = kids[-2], kids[-1]
            self.assign_to(lhs, self.ev(rhs), s.get("op"))
        elif k == "ForStmt":
            init, cond, inc, body = s["c"][0], s["c"][1], s["c"][2], s["c"][3]
            iv = init["c"][0] if init is not None and init.get("k") == "DeclStmt" and init.get("c") else None
            inc0 = sc(inc) if inc is not None else None
            if iv is None or iv.get("k") != "VarDecl" or not iv.get("c") or inc0 is None or inc0.get("k") != "UnaryOperator" or inc0.get("op") != "++" \
                    or not astq.is_ref_to(inc0["c"][0], iv["r"]):
                raise AnalysisBroken("loop that is not a counting loop")
            val = self.ev(iv["c"][0])
            if not getattr(val, "is_Integer", False):
                raise AnalysisBroken("loop with a symbolic start")
            count = 0
            while True:
                self.env[iv["r"]] = val
                cv = self.ev(cond)
                t = self.decide(cv, cond) if cv not in (sp.true, sp.false) else (cv == sp.true)
                if not t:
                    break
                count += 1
                if count > 64:
                    raise AnalysisBroken("loop with more than 64 iterations")
                self.stmt(body)
                val = val + 1
            return
        elif k in ("CXXForRangeStmt", "WhileStmt"):
            # a loop over a container / under a condition whose body only writes scalar locals: after it those locals hold values the
            # evaluation does not know (a fresh symbol each, so a later condition on one of them is undecided and both ways are followed)
            written = {}
            for y in self.F.walk(s):
                ky = y.get("k")
                if ky in ("ReturnStmt", "BreakStmt", "GotoStmt", "CXXThrowExpr", "CXXMemberCallExpr", "CXXOperatorCallExpr") and not (
                        ky == "CXXOperatorCallExpr" and y.get("op") in ("[]", "*", "!=", "==", "++")) and not (
                        ky == "CXXMemberCallExpr" and y.get("callee") and (self.P.d(y["callee"]).get("const") or self.P.d(y["callee"]).get("n") in ("begin", "end", "size"))):
                    raise AnalysisBroken("statement kind %s (a loop with %s inside)" % (k, ky))
                tgt = None
                if ky in ("BinaryOperator", "CompoundAssignOperator") and y.get("op") in norm.ASSIGN_OPS and y.get("c"):
                    tgt = sc(y["c"][0])
                elif ky == "UnaryOperator" and y.get("op") in ("++", "--") and y.get("c"):
                    tgt = sc(y["c"][0])
                if tgt is not None:
                    if tgt.get("k") != "DeclRefExpr" or self.P.d(tgt["r"]).get("storage") != "local" or not norm.is_arith((self.P.d(tgt["r"]).get("t") or tgt.get("t") or "").replace("const ", "")) \
                            or isinstance(self.env.get(tgt["r"]), tuple):
                        raise AnalysisBroken("statement kind %s (a loop that writes %s)" % (k, norm.render(self.P, tgt)[:40]))
                    written[tgt["r"]] = tgt.get("n") or "v"
            self._havoc = getattr(self, "_havoc", 0)
            for key_, nm_ in written.items():
                self._havoc += 1
                self.env[key_] = sp.Symbol("after_loop_%s_%d" % (nm_, self._havoc))
            return
        elif k in ("NullStmt",):
            return
        elif k == "DoStmt" and not any(y.get("k") in ("BinaryOperator", "CompoundAssignOperator", "CXXOperatorCallExpr", "CallExpr", "CXXMemberCallExpr", "ReturnStmt")
                                       for y in self.F.walk(s["c"][0] if s.get("c") else None) if y is not None):
            return        # an assertion macro compiled out (do {} while (false))
        elif k in ("ExprWithCleanups",):
            self.stmt(s["c"][0])
        elif k == "ReturnStmt" and getattr(self, "allow_return", False):
            raise _Return(self.ev(s["c"][0]) if s.get("c") and s["c"][0] is not None else None)
        elif k in ("ContinueStmt", "BreakStmt", "ReturnStmt"):
            raise AnalysisBroken("control leaves the block (%s)" % k)
        else:
            # calls without effect on the tracked state (assert macros are compiled out in the release view)
            if k in ("CallExpr", "CXXMemberCallExpr"):
                return
            raise AnalysisBroken("statement kind %s" % k)

    def run_function(self, stmts):
        """fold the statements up to the first return on this path; the returned value (None if the end is reached)"""
        self.allow_return = True
        try:
            self.run(stmts)
        except _Return as r_:
            return r_.value
        finally:
            self.allow_return = False
        return None


# ------------------------------------------------------------------------------------------------
def _assigned_in(F, node):
    """decl keys of the locals assigned (or ++/--) anywhere under `node`"""
    out = set()
    for x in F.walk(node):
        k = x.get("k")
        if k in ("BinaryOperator", "CompoundAssignOperator", "CXXOperatorCallExpr") and x.get("op") in norm.ASSIGN_OPS:
            kids = [y for y in x["c"] if y is not None]
            t = sc(kids[-2]) if len(kids) >= 2 else None
            while t is not None and astq.subscript(t):
                t = sc(astq.subscript(t)[0])
            if t is not None and t.get("k") == "DeclRefExpr":
                out.add(t["r"])
        if k == "UnaryOperator" and x.get("op") in ("++", "--"):
            t = sc(x["c"][0])
            if t.get("k") == "DeclRefExpr":
                out.add(t["r"])
    return out


def env_before(P, F, stmt, seed=None, fresh=None):
    """A VecEval whose environment holds the values that reach `stmt` along the straight-line code before it: for every enclosing
    block, outermost first, the simple statements (declarations, assignments) that precede the path to `stmt` are folded in order;
    a compound statement on the way (if / loop / switch) that is not entered invalidates what it assigns; entering a loop
    invalidates what its body assigns (loop-carried values).  An invalidated or unevaluable local becomes a fresh symbol
    (`fresh(name, key, is_point)`), so the result is sound for identities that must hold whatever those values are."""
    seed = dict(seed or {})
    ve = VecEval(P, F, env=seed)

    def mk(key):
        d = P.d(key)
        nm = d.get("n", "v")
        if fresh is not None:
            v = fresh(nm, key, ve.is_point_type(d.get("t")))
            if v is not None:
                return v
        if ve.is_point_type(d.get("t")):
            dim = int(d["t"].split("Point<")[1][0])
            return tuple(sp.Symbol("%s_%d" % (nm, q), real=True) for q in range(dim))
        return sp.Symbol(nm, real=True)

    def kill(keys):
        for k_ in keys:
            if k_ in seed:
                continue
            ve.env[k_] = mk(k_)
    path = [a for a in F.ancestors(stmt)][::-1] + [stmt]      # outermost first
    for depth_, a in enumerate(path[:-1]):
        nxt = path[depth_ + 1]
        k = a.get("k")
        if k in ("ForStmt", "WhileStmt", "DoStmt", "CXXForRangeStmt"):
            kill(_assigned_in(F, a))
            if k == "ForStmt" and a["c"][0] is not None and a["c"][0].get("k") == "DeclStmt":
                for v in a["c"][0]["c"]:
                    if v.get("k") == "VarDecl":
                        ve.env[v["r"]] = seed.get(v["r"], sp.Symbol(v.get("n", "i"), integer=True, nonnegative=True))
        if k != "CompoundStmt":
            continue
        for s in a["c"]:
            if s is nxt:
                break
            if s is None:
                continue
            sk = s.get("k")
            simple = sk == "DeclStmt" or (sk in ("BinaryOperator", "CompoundAssignOperator", "CXXOperatorCallExpr") and s.get("op") in norm.ASSIGN_OPS) \
                or sk == "ExprWithCleanups"
            if simple:
                try:
                    ve.stmt(s)
                    # a seeded name keeps its seed
                    for k_ in seed:
                        ve.env[k_] = seed[k_]
                    if sk == "DeclStmt":
                        for v in s["c"]:
                            if v.get("k") == "VarDecl" and ve.is_point_type(v.get("t")) and not isinstance(ve.env.get(v["r"]), tuple):
                                ve.env[v["r"]] = mk(v["r"])
                except AnalysisBroken:
                    if sk == "DeclStmt":
                        for v in s["c"]:
                            if v.get("k") == "VarDecl" and v["r"] not in seed:
                                ve.env[v["r"]] = mk(v["r"])
                    else:
                        kill(_assigned_in(F, s))
            else:
                kill(_assigned_in(F, s))
    return ve
