"""PURE — effect analysis of the query path (DESIGN §3.1).

Every function reachable (class-hierarchy call graph) from the query roots may write only memory
that dies with the call.  The verdict is given per reachable function (its own write sites) and
per root (its transitive summary)."""
import re

from .. import effects as EF
from ..tu import AnalysisBroken

QUERY_ROOTS = [
    # (qualified name, number of parameters or None)
    ("WorldBuilder::World::properties", None),
    ("WorldBuilder::World::temperature", None),
    ("WorldBuilder::World::composition", None),
    ("WorldBuilder::World::grains", None),
    ("WorldBuilder::World::distance_to_plane", None),
    ("WorldBuilder::World::properties_output_size", None),
]
ROOT_FLOOR = 13     # 2 + 4 + 2 + 2 + 1 + 1 + (hand count) = 12 members; see floor below

# "unknown" roots that are themselves the violation (everything else is an idiom the resolver does
# not know -> analysis broken, exit 2)
SEMANTIC_UNKNOWN = ("mutable field", "const_cast", "cast drops const", "inline asm")

RANDOM_MODEL_CLASSES = {"RandomUniformDistribution", "RandomUniformDistributionDeflected", "Random"}
RANDOM_MODEL_METHODS = {"get_grains", "get_composition"}


def query_roots(P):
    roots = []
    for qn, _ in QUERY_ROOTS:
        fs = P.funcs_named(qn)
        if not fs:
            raise AnalysisBroken("query root %s not found" % qn)
        roots.extend(fs)
    # the C and C++ interface wrappers answer queries too (everything in wrapper_c.cc / wrapper_cpp.cc except the
    # functions that create and destroy a world)
    nw = 0
    for F in P.funcs.values():
        base = F.file.rsplit("/", 1)[-1]
        if base in ("wrapper_c.cc", "wrapper_cpp.cc"):
            nm = F.qn.split("::")[-1]
            if nm in ("create_world", "release_world", "WorldBuilderWrapper", "~WorldBuilderWrapper"):
                continue
            roots.append(F)
            nw += 1
    if nw < 13:
        raise AnalysisBroken("only %d interface wrapper functions found (13 confirmed by hand)" % nw)
    return roots


def is_random_model(F):
    parts = F.qn.split("::")
    return (len(parts) >= 2 and parts[-1] in RANDOM_MODEL_METHODS and parts[-2] in RANDOM_MODEL_CLASSES
            and any(p.endswith("Models") for p in parts))


def describe_root(P, root):
    if root[0] in ("ptrfield", "global", "captured"):
        d = P.d(root[1])
        return "%s %s" % ({"ptrfield": "object behind pointer/reference member", "global": "static-storage variable",
                           "captured": "captured variable"}[root[0]], d.get("qn", root[1]))
    if root[0] == "unknown":
        return "unresolved: %s" % root[1]
    if root[0] == "this":
        return "*this (state of the world / feature / model object)"
    if root[0] == "param":
        return "caller's object behind parameter %d" % root[1]
    if root[0] == "rng":
        return "World::random_number_engine (via get_random_number_engine)"
    return str(root)


def origin(site):
    """follow a summary entry down to the statement that performs the write"""
    chain = []
    while site is not None:
        F, node, note, inner = site
        chain.append("%s (%s) %s" % (F.qn, F.nloc(node), note))
        site = inner
    return chain


def run(P, rep, roots, rule="PURE", allow_param_writes=(), stream_rule=None, pid_note=""):
    """returns (Effects, reachable set).  allow_param_writes: set of (root qn, param idx) that are
    documented out-parameters"""
    rep.rule(rule, "every function reachable from the query roots writes only call-local memory: no write "
                   "through a pointer/reference member, no use of mutable static storage, no mutable/const_cast, "
                   "no write to *this visible at a root; sole exception: World::get_random_number_engine() inside "
                   "the random model classes")
    E = EF.Effects(P)
    R = P.reachable(roots)
    S = E.compute(R)
    n_fn = 0
    n_sites = 0
    random_callers = []
    for k in sorted(R):
        F = P.funcs.get(k)
        if F is None:
            continue
        n_fn += 1
        eff, _ = E.local_effects(F)
        bad = []
        for root, site in eff.items():
            if root[0] in ("ptrfield", "global", "unknown"):
                bad.append((root, site))
            elif root[0] == "rng":
                if is_random_model(F):
                    random_callers.append(F)
                else:
                    bad.append((root, site))
        n_sites += len(eff)
        if bad:
            for root, site in bad:
                _, node, note, _ = site
                if root[0] == "unknown" and not root[1].startswith(SEMANTIC_UNKNOWN):
                    rep.unknown(rule, "%s at %s in %s (%s)" % (root[1], F.nloc(node), F.qn, note))
                    continue
                rep.violation(rule, "%s writes %s" % (F.qn, describe_root(P, root)), F.nloc(node), F.qn,
                              note, "the written object outlives the call",
                              key="%s|%s|%s" % (rule, F.qn, describe_root(P, root)),
                              witness="two queries q1;q2 vs q2 alone (or two threads, or two worlds) can observe the write")
        else:
            rep.ok(rule, "function %s" % F.qn, F.loc, F.qn, "%d write sites, all call-local%s" % (
                len(eff), " (+ whitelisted RNG draw)" if any(r[0] == "rng" for r in eff) else ""))
    # roots: transitive summary
    for F in roots:
        s = S.get(F.key, {})
        for root, site in s.items():
            if root[0] == "this":
                rep.violation(rule, "root %s modifies *this" % F.qn, site[0].nloc(site[1]), F.qn,
                              " <- ".join(origin(site)), "a query modifies the world it queries",
                              key="%s|root-this|%s" % (rule, origin(site)[-1].split(" (")[0]),
                              witness="repeat the same query twice / from two threads")
            elif root[0] == "param":
                if (F.qn, root[1]) in allow_param_writes:
                    continue
                if F.file.endswith("wrapper_c.cc") and root[1] == len(F.params) - 1 and P.d(F.params[-1]).get("t", "").replace(" ", "") == "double*":
                    continue    # the C interface returns through its last parameter, a double* (documented out-parameter)
                rep.violation(rule, "root %s writes through parameter %d" % (F.qn, root[1]), site[0].nloc(site[1]),
                              F.qn, " <- ".join(origin(site)), "a query writes into its caller's argument",
                              key="%s|root-param|%s|%d" % (rule, F.qn, root[1]))
        rep.ok(rule + ".root", "root %s (%d params)" % (F.qn, len(F.params)), F.loc, F.qn,
               "transitive summary: %s" % sorted({r[0] for r in s}))
    rep.analysed.update(dict(reachable_decls=len(R), reachable_functions_with_body=n_fn, write_sites=n_sites,
                             roots=[f.qn for f in roots]))
    return E, R, S, random_callers


def no_swallow(P, rep, roots, rule="EXC.propagate"):
    """an exception raised by the library reaches the caller of an entry point"""
    rep.rule(rule, "no query entry point (World members, C and C++ interface functions) contains a try block: a refusal raised below "
                   "(WBAssertThrow) is never caught and turned into a normal return")
    n = 0
    for F in roots:
        if F.body is None:
            continue
        n += 1
        tr = [x for x in F.walk() if x.get("k") in ("CXXTryStmt", "CXXCatchStmt")]
        if tr:
            rep.violation(rule, "%s contains a try/catch" % F.qn, F.nloc(tr[0]), F.qn, "", "an exception thrown for an invalid query is swallowed: the caller "
                          "gets a normal return with unset values", key="%s|%s" % (rule, F.qn), witness="a query the library refuses (2D query on a world without cross section)")
        else:
            rep.ok(rule, "%s: no handler" % F.qn, F.loc, F.qn)
    rep.floor(rule, n, 1, "entry points")


def stream_io(P, rep, R, rule="PURE.io"):
    """no I/O on shared streams (std::cout/cerr/clog) in the reachable set"""
    rep.rule(rule, "no reachable function touches std::cout/std::cerr/std::clog or C stdio, opens a file stream, or consults the environment (getenv, system)")
    n = 0
    for k in sorted(R):
        F = P.funcs.get(k)
        if F is None:
            continue
        n += 1
        for node in F.walk():
            if node.get("k") == "DeclRefExpr":
                qn = P.d(node["r"]).get("qn", "")
                if qn in ("std::cout", "std::cerr", "std::clog", "stdout", "stderr", "printf", "puts", "fprintf"):
                    rep.violation(rule, "%s uses %s" % (F.qn, qn), F.nloc(node), F.qn, qn,
                                  "shared stream touched on the query path", key="%s|%s|%s" % (rule, F.qn, qn))
            if node.get("k") in ("CallExpr",) and node.get("callee"):
                qn = P.d(node["callee"]).get("qn", "")
                if qn in ("getenv", "std::getenv", "secure_getenv", "fopen", "std::fopen", "system", "std::system", "open", "read", "popen"):
                    rep.violation(rule, "%s calls %s" % (F.qn, qn), F.nloc(node), F.qn, qn, "a query consults the process environment / file system: its answer is "
                                  "not a function of the parsed file and the query", key="%s|%s|%s" % (rule, F.qn, qn), witness="same query under a different environment")
            if node.get("k") in ("VarDecl", "CXXConstructExpr", "CXXTemporaryObjectExpr") and any(t in node.get("t", "") for t in ("basic_ifstream", "basic_ofstream", "basic_fstream")):
                rep.violation(rule, "%s opens a file stream" % F.qn, F.nloc(node), F.qn, node.get("t", "")[:60], "a query reads or writes files",
                              key="%s|%s|fstream" % (rule, F.qn), witness="query with the file changed or missing")
    rep.ok(rule, "%d reachable functions scanned" % n)


def world_fields_initialised(P, rep, rule="INIT.world"):
    """no query reads an indeterminate member of the world"""
    rep.rule(rule, "every arithmetic member of World that some function reads has a default member initialiser, or is assigned on every path "
                   "through the constructor (member-initialiser list, or a store in the constructor / in parse_entries that is not under a "
                   "condition, or stores in both branches of one if/else): no answer depends on what the memory held before")
    from .. import astq, norm
    from ..astq import sc
    rec = P.records.get("WorldBuilder::World")
    if not rec:
        raise AnalysisBroken("class World not found")
    ctors = [f for f in P.funcs_named("WorldBuilder::World::World") if f.body is not None]
    pe = P.func("WorldBuilder::World::parse_entries")
    if not ctors:
        raise AnalysisBroken("World constructor not found")
    n = 0
    for fk in rec.get("fields", []):
        d = P.d(fk)
        t = (d.get("t") or "").replace("const ", "").strip()
        if not norm.is_arith(t) and t not in ("size_t", "std::size_t", "unsigned long"):
            continue
        read = False
        for F in P.funcs.values():
            if F.body is None:
                continue
            for x in F.walk():
                if x.get("k") == "MemberExpr" and x.get("r") == fk:
                    par = F.parent.get(x["i"])
                    if par is not None and par.get("k") in ("BinaryOperator",) and par.get("op") == "=" and sc(par["c"][0]) is x:
                        continue
                    read = True
                    break
            if read:
                break
        if not read:
            continue
        n += 1
        if d.get("dinit"):
            rep.ok(rule, "World::%s has a default member initialiser" % d.get("n"), rec.get("loc", ""), "WorldBuilder::World")
            continue
        definite = False
        for C in ctors:
            ok_c = any(ini.get("n") == d.get("n") and ini.get("written") for ini in (C.inits or []))
            for G in (C, pe):
                if ok_c:
                    break
                stores = [x for x in G.walk() if x.get("k") == "BinaryOperator" and x.get("op") == "=" and sc(x["c"][0]).get("k") == "MemberExpr" and sc(x["c"][0]).get("r") == fk]
                # also &field handed to a function that fills it (MPI_Comm_rank(&MPI_RANK)) counts as a store
                for x in G.walk():
                    if x.get("k") == "UnaryOperator" and x.get("op") == "&" and sc(x["c"][0]).get("k") == "MemberExpr" and sc(x["c"][0]).get("r") == fk:
                        stores.append(x)
                for st in stores:
                    conds = [a for a in G.ancestors(st) if a.get("k") in ("IfStmt", "ForStmt", "WhileStmt", "CXXForRangeStmt", "SwitchStmt", "ConditionalOperator", "CXXTryStmt")]
                    if not conds:
                        ok_c = True
                        break
                    # if/else pair: another store in the other branch of the innermost if, itself unconditional otherwise
                    inner = conds[0]
                    if inner.get("k") == "IfStmt" and len(conds) == 1 and inner["c"][2] is not None:
                        in_then = any(y is st for y in G.walk(inner["c"][1]))
                        other = inner["c"][2] if in_then else inner["c"][1]
                        if any(o is not st and any(y is o for y in G.walk(other)) for o in stores):
                            ok_c = True
                            break
            if not ok_c:
                definite = False
                break
            definite = True
        if definite:
            rep.ok(rule, "World::%s is assigned on every path through the constructor" % d.get("n"), ctors[0].loc, ctors[0].qn)
        else:
            rep.violation(rule, "World::%s is read but not assigned on every path through the constructor" % d.get("n"), ctors[0].loc, ctors[0].qn, "",
                          "its value is whatever the memory held: answers (for instance the seed of the random engine) differ between otherwise identical worlds",
                          key="%s|%s" % (rule, d.get("n")), witness="two worlds built from the same file in storage with different previous contents")
    rep.floor(rule, n, 8, "arithmetic members of World that are read")
