"""DEP — dependence sets of shortcuts (DESIGN §3.10) and the other structural facts of C07."""
import re

import sympy as sp

from .. import astq, norm
from ..astq import sc
from ..tu import AnalysisBroken
from .asserts import ancestors_of, parse_functions, string_lit


def field_deps(P, cls):
    """field name -> set of atoms it depends on through the parse-time code of cls:
    'key:<json key>', 'field:<name>', 'call:<qualified callee>' (transitively closed over fields)"""
    direct = {}

    def atoms_of(F, e, local_src, depth=0):
        out = set()
        if e is None or depth > 12:
            return out
        for x in F.walk(e):
            k = x.get("k")
            if k == "MemberExpr" and astq.is_this_field(P, x) and P.d(x["r"]).get("k") == "Field":
                out.add("field:" + x["n"])
            elif k == "StringLiteral":
                par = F.parent.get(x["i"])
                # literal passed to a Parameters accessor
                anc = [a for a in F.ancestors(x)][:4]
                if any(a.get("k") == "CXXMemberCallExpr" and a["c"][0].get("n", "").startswith(("get", "check_entry")) for a in anc):
                    out.add("key:" + x.get("v", ""))
            elif k in ("CXXMemberCallExpr", "CallExpr") and x.get("callee"):
                q = P.d(x["callee"]).get("qn", "")
                if q.endswith(("max_model_depth", "natural_coordinate_system")):
                    out.add("call:" + q.split("::")[-1])
            elif k == "DeclRefExpr":
                d = P.d(x["r"])
                if d.get("storage") == "local" and x["r"] in local_src:
                    for s in local_src[x["r"]]:
                        out |= atoms_of(F, s, {kk: v for kk, v in local_src.items() if kk != x["r"]}, depth + 1)
        return out

    for F in parse_functions(P, cls):
        local_src = {}
        for x in F.walk():
            if x.get("k") == "VarDecl" and x.get("c"):
                local_src.setdefault(x["r"], []).append(x["c"][0])
            if x.get("k") in ("BinaryOperator", "CompoundAssignOperator", "CXXOperatorCallExpr") and x.get("op") in norm.ASSIGN_OPS:
                t = sc(x["c"][0])
                while True:
                    s = astq.subscript(t)
                    if not s:
                        break
                    t = sc(s[0])
                if t is not None and t.get("k") == "DeclRefExpr" and len(x["c"]) > 1:
                    local_src.setdefault(t["r"], []).append(x["c"][1])
        for x in F.walk():
            tgt = None
            src = []
            if x.get("k") in ("BinaryOperator", "CompoundAssignOperator", "CXXOperatorCallExpr") and x.get("op") in norm.ASSIGN_OPS and len(x.get("c", [])) > 1:
                t = sc(x["c"][0])
                idx = []
                while True:
                    s = astq.subscript(t)
                    if not s:
                        break
                    idx.append(s[1])
                    t = sc(s[0])
                # reference local bound to a field (std::pair<...> &bb = surface_bounding_box.get_boundary_points())
                if t is not None and t.get("k") == "MemberExpr" and t.get("c") and sc(t["c"][0]).get("k") == "DeclRefExpr":
                    base = sc(t["c"][0])
                    for s0 in local_src.get(base["r"], []):
                        for y in F.walk(s0):
                            if y.get("k") == "MemberExpr" and astq.is_this_field(P, y):
                                tgt = y["n"]
                if t is not None and t.get("k") == "MemberExpr" and astq.is_this_field(P, t):
                    tgt = t["n"]
                src = [x["c"][1]]
            mc = astq.member_call(P, x)
            if mc and mc[0] is not None and mc[1] in ("resize", "push_back", "emplace_back", "extend", "assign"):
                b = sc(mc[0])
                if b.get("k") == "MemberExpr" and astq.is_this_field(P, b):
                    tgt = b["n"]
                    src = list(mc[2])
            if tgt is None:
                continue
            at = set()
            for s0 in src:
                at |= atoms_of(F, s0, local_src)
            # loop bounds the assignment sits in contribute too (a max over sections depends on the section list)
            direct.setdefault(tgt, set()).update(at)
    # closure
    clo = {f: set(a) for f, a in direct.items()}
    changed = True
    while changed:
        changed = False
        for f, a in clo.items():
            add = set()
            for x in list(a):
                if x.startswith("field:"):
                    add |= clo.get(x[6:], set())
            if not add <= a:
                a |= add
                changed = True
    return clo


def _trig_accumulator(P, F, key):
    """(lo, hi) if the local `key` of F starts from a literal c and is otherwise only assigned std::max(key, E...) where every
    E is sin/cos of something (or a std::max of such): then c <= key <= max(c, 1). None otherwise."""
    init = None
    for x in F.walk():
        if x.get("k") == "VarDecl" and x.get("r") == key and x.get("c"):
            v = sc(x["c"][0])
            if v.get("k") in ("FloatingLiteral", "IntegerLiteral"):
                init = float(v["v"])
    if init is None:
        return None

    def trig(e):
        e = sc(e)
        if e.get("k") == "CallExpr":
            qn = P.d(e.get("callee")).get("qn")
            if qn in ("std::sin", "sin", "std::cos", "cos"):
                return True
            if qn in ("std::max", "std::min"):
                return all(trig(a) or astq.is_ref_to(sc(a), key) for a in e["c"][1:])
        return False
    nass = 0
    for x in F.walk():
        if x.get("k") in ("BinaryOperator", "CompoundAssignOperator") and x.get("op") in ("=", "+=", "-=", "*=", "/=") and astq.is_ref_to(sc(x["c"][0]), key):
            if x.get("op") != "=":
                return None
            r = sc(x["c"][1])
            if not (r.get("k") == "CallExpr" and P.d(r.get("callee")).get("qn") == "std::max" and any(astq.is_ref_to(sc(a), key) for a in r["c"][1:]) and trig(r)):
                return None
            nass += 1
        if x.get("k") == "UnaryOperator" and x.get("op") in ("++", "--", "&") and astq.is_ref_to(sc(x["c"][0]), key):
            return None
    if nass == 0:
        return None
    return (init, max(init, 1.0))


def culling(P, rep, rule="DEP.culling"):
    rep.rule(rule, "a depth cut-off that is not the feature's own max depth must depend on everything the depth extent of the "
                   "slab/fault depends on: its min depth (the surface starts there), all segment lengths and thicknesses; the "
                   "surface bounding box must depend on the coordinates, the segment lengths and thicknesses, and in spherical "
                   "worlds on the planet radius")
    n = 0
    for cls, keyfield in (("WorldBuilder::Features::SubductingPlate", "slab"), ("WorldBuilder::Features::Fault", "fault")):
        deps = field_deps(P, cls)
        F = P.func(cls + "::properties")
        depth_k = F.params[2]
        # first if statement containing the bounding-box test
        gate = None
        from .guard import expand_cond
        for x in F.walk():
            if x.get("k") == "IfStmt" and "point_inside" in norm.render(P, expand_cond(P, F, x["c"][0])):
                gate = x
                break
        if gate is None:
            rep.unknown(rule, "%s: culling condition with point_inside not found" % cls)
            continue
        conj = []

        def split(c):
            c = sc(expand_cond(P, F, c))
            if c.get("k") == "BinaryOperator" and c.get("op") == "&&":
                split(c["c"][0])
                split(c["c"][1])
            else:
                conj.append(c)
        split(gate["c"][0])
        for c in conj:
            if c.get("k") == "BinaryOperator" and c.get("op") in ("<=", "<", ">=", ">"):
                l, r = sc(c["c"][0]), sc(c["c"][1])
                if astq.is_ref_to(l, depth_k):
                    bound, op = r, c["op"]
                elif astq.is_ref_to(r, depth_k):
                    bound, op = l, {"<=": ">=", "<": ">", ">=": "<=", ">": "<"}[c["op"]]
                else:
                    continue
                n += 1
                fields = {x["n"] for x in F.walk(bound) if x.get("k") == "MemberExpr" and astq.is_this_field(P, x)}
                atoms = set()
                for f in fields:
                    atoms |= deps.get(f, set()) | {"field:" + f}
                txt = norm.render(P, c)
                if op in (">=", ">"):
                    # lower bound on depth: the feature's own min depth
                    if "key:min depth" in atoms:
                        rep.ok(rule, "%s: `%s` is the feature's own min depth" % (keyfield, txt), F.nloc(c), F.qn)
                    else:
                        rep.violation(rule, "%s: lower depth bound `%s` does not derive from \"min depth\"" % (keyfield, txt), F.nloc(c), F.qn, txt, "points are discarded by a bound unrelated to the membership definition",
                                      key="%s|%s|lower" % (rule, cls))
                    continue
                if atoms >= {"key:max depth"} and not (atoms & {"key:segments"}):
                    rep.ok(rule, "%s: `%s` is the feature's own max depth" % (keyfield, txt), F.nloc(c), F.qn)
                    continue
                need = {"key:min depth", "key:segments"}
                missing = need - atoms
                if missing:
                    rep.violation(rule, "%s: depth cut-off `%s` does not depend on %s" % (keyfield, txt, sorted(m[4:] for m in missing)), F.nloc(c), F.qn, txt,
                                  "the %s surface starts at its min depth and extends over its total length and thickness from there: a bound that "
                                  "ignores %s cuts off points that satisfy the membership definition" % (keyfield, sorted(m[4:] for m in missing)),
                                  key="%s|%s|cutoff" % (rule, cls),
                                  witness="vertical %s with min depth 150 km, length 200 km, thickness 100 km: points between 300 and 350 km depth" % keyfield)
                else:
                    # the deepest point of the feature can lie length + thickness below its start (a segment table that goes straight
                    # down and then flattens): the cut-off must be at least starting_depth + L + T for all L, T >= 0. Decided on the
                    # extracted formula: a counterexample among sample values refutes it.
                    S0, L_, T_ = sp.symbols("S0 L T", nonnegative=True)

                    def hk(nd):
                        if nd.get("k") == "MemberExpr" and astq.is_this_field(P, nd):
                            nm = nd.get("n", "")
                            if nm == "starting_depth":
                                return S0
                            if "total" in nm and "length" in nm:
                                return L_
                            if "thickness" in nm:
                                return T_
                        if nd.get("k") == "CallExpr" and P.d(nd.get("callee")).get("qn") in ("std::hypot", "hypot") and len(nd["c"]) == 3:
                            return sp.sqrt(symb(nd["c"][1]) ** 2 + symb(nd["c"][2]) ** 2)
                        return None
                    # a field that is none of the three is replaced by what parse_entries stores in it (one plain assignment);
                    # a local of parse_entries that only accumulates std::max(local, sin/cos(...)) from a literal start lies in
                    # [start, 1]: it is kept as a symbol and sampled over that range
                    PE = P.func(cls + "::parse_entries")
                    ranges = {}

                    def hk_pe(nd):
                        r0 = hk(nd)
                        if r0 is not None:
                            return r0
                        if nd.get("k") == "DeclRefExpr" and P.d(nd.get("r")).get("storage") == "local":
                            rg = _trig_accumulator(P, PE, nd["r"])
                            if rg is not None:
                                q = sp.Symbol("acc_" + nd.get("n", "?"))
                                ranges[q] = rg
                                return q
                        return None
                    symb_pe = norm.Sym(P, PE, inline_locals=True, hook=hk_pe)

                    def hk2(nd):
                        r0 = hk(nd)
                        if r0 is not None:
                            return r0
                        if nd.get("k") == "MemberExpr" and astq.is_this_field(P, nd):
                            defs = [x for x in PE.walk() if x.get("k") in ("BinaryOperator", "CompoundAssignOperator") and x.get("op", "").endswith("=")
                                    and x.get("op") not in ("==", "!=", "<=", ">=") and sc(x["c"][0]).get("k") == "MemberExpr"
                                    and sc(x["c"][0]).get("r") == nd.get("r") and astq.is_this_field(P, sc(x["c"][0]))]
                            if len(defs) == 1 and defs[0].get("op") == "=":
                                try:
                                    return symb_pe(defs[0]["c"][1])
                                except Exception:
                                    return None
                        return None
                    symb = norm.Sym(P, F, inline_locals=True, hook=hk2)
                    try:
                        slack = sp.simplify(symb(bound) - S0 - L_ - T_)
                    except Exception:
                        slack = None
                    refuted = None
                    if slack is not None and not (slack.free_symbols - {S0, L_, T_} - set(ranges)):
                        extra = sorted(slack.free_symbols & set(ranges), key=str)
                        import itertools
                        grids = [[ranges[q][0], (ranges[q][0] + ranges[q][1]) / 2.0, ranges[q][1]] for q in extra]
                        for sv, lv, tv in ((0, 3, 4), (1e5, 4e5, 1e5), (0, 1, 0), (0, 0, 1), (2e5, 1e6, 2e5)):
                            for ev in itertools.product(*grids):
                                try:
                                    val = float(slack.subs({S0: sv, L_: lv, T_: tv}).subs(dict(zip(extra, ev))))
                                except Exception:
                                    val = 0.0
                                if val < -1e-9 * (1 + sv + lv + tv):
                                    refuted = (sv, lv, tv, val) if not extra else (sv, lv, tv, val, dict(zip(map(str, extra), ev)))
                                    break
                            if refuted is not None:
                                break
                    elif slack is not None:
                        rep.unknown(rule, "%s: depth cut-off `%s` depends on %s, whose range this rule cannot bound" % (
                            keyfield, txt, sorted(str(q) for q in slack.free_symbols - {S0, L_, T_} - set(ranges))))
                        continue
                    if refuted is not None:
                        rep.violation(rule, "%s: depth cut-off `%s` lies %.6g above min depth + length + thickness for (min depth, L, T) = %s%s" % (
                                          keyfield, txt, -refuted[3], refuted[:3], (" with %s" % refuted[4]) if len(refuted) > 4 else ""),
                                      F.nloc(c), F.qn, txt, "a feature whose segments go down and then flatten reaches min depth + length + thickness: points of it are cut off",
                                      key="%s|%s|cutoff-value" % (rule, cls), witness="a slab with a vertical first segment and a horizontal second one, point near its lower edge")
                    else:
                        rep.ok(rule, "%s: depth cut-off `%s` depends on min depth, segment lengths and thicknesses and is >= min depth + L + T" % (keyfield, txt), F.nloc(c), F.qn)
            elif "point_inside" in norm.render(P, c):
                n += 1
                atoms = deps.get("surface_bounding_box", set())
                need = {"key:coordinates", "key:segments"}
                missing = need - atoms
                if missing:
                    rep.violation(rule, "%s: surface bounding box does not depend on %s" % (keyfield, sorted(m[4:] for m in missing)), F.nloc(c), F.qn, norm.render(P, c)[:80],
                                  "the box cannot contain every point of the feature for all values of that parameter", key="%s|%s|bbox" % (rule, cls),
                                  witness="change the ignored parameter alone")
                elif "call:max_model_depth" not in atoms:
                    rep.violation(rule, "%s: spherical bounding box buffer does not depend on the planet radius" % keyfield, F.nloc(c), F.qn, "",
                                  "a length is compared with angles without the radius", key="%s|%s|bbox-radius" % (rule, cls), witness="spherical world with another radius")
                else:
                    rep.ok(rule, "%s: bounding box depends on coordinates, segment lengths/thicknesses and the radius" % keyfield, F.nloc(c), F.qn)
        # Cartesian buffer: every assignment to buffer_around_*_cartesian is at least L + T (a slab that goes down and then flattens,
        # or an overturned one, reaches that far from its trench) - decided on the extracted expression at sample values
        PF0 = P.func(cls + "::parse_entries")
        L0, T0 = sp.symbols("L T", nonnegative=True)

        def hk0(nd):
            if nd.get("k") == "MemberExpr" and astq.is_this_field(P, nd):
                nm = nd.get("n", "")
                if "total" in nm and "length" in nm:
                    return L0
                if "thickness" in nm:
                    return T0
            return None
        for asg in PF0.walk():
            if asg.get("k") == "BinaryOperator" and asg.get("op") == "=" and sc(asg["c"][0]).get("k") == "MemberExpr" \
                    and re.match(r"buffer_around_\w+_cartesian$", sc(asg["c"][0]).get("n", "")):
                n += 1
                try:
                    val = norm.Sym(P, PF0, inline_locals=True, hook=hk0)(asg["c"][1])
                except Exception:
                    val = None
                if val is None or (val.free_symbols - {L0, T0}):
                    rep.unknown(rule, "%s: Cartesian buffer `%s` is not an expression of the maximal length and thickness" % (keyfield, norm.render(P, asg["c"][1])[:60]))
                    continue
                short = None
                for lv, tv in ((3, 4), (4e5, 1e5), (1, 0), (0, 1), (1e5, 2e5)):
                    try:
                        got = float(val.subs({L0: lv, T0: tv}))
                    except Exception:
                        got = float("inf")
                    if got < (lv + tv) * (1 - 1e-12):
                        short = (lv, tv, got)
                        break
                if short:
                    rep.violation(rule, "%s: Cartesian buffer `%s` is %g for (L, T) = (%g, %g), less than L + T" % (keyfield, norm.render(P, asg["c"][1])[:60], short[2], short[0], short[1]),
                                  PF0.nloc(asg), PF0.qn, norm.render(P, asg)[:140], "points of the feature farther from the trench than the buffer are culled by the bounding box",
                                  key="%s|%s|buffer-cartesian" % (rule, cls), witness="a short, thick, overturned slab under an axis-parallel trench")
                else:
                    rep.ok(rule, "%s: Cartesian buffer `%s` >= L + T" % (keyfield, norm.render(P, asg["c"][1])[:50]), PF0.nloc(asg), PF0.qn)
        # spherical buffer: an angle that must exceed (L+T)/R_surface, the angle the same arc subtends AT the surface --
        # the slab lies below the surface, where it subtends a strictly larger angle
        PF = P.func(cls + "::parse_entries")
        bufs = [x for x in PF.walk() if x.get("k") == "VarDecl" and re.match(r"buffer_around_\w+_spherical$", x.get("n", "")) and x.get("c")]
        if len(bufs) != 1:
            rep.unknown(rule, "%s: spherical buffer definition not found (%d)" % (cls, len(bufs)))
        else:
            B, Rinv = sp.Symbol("B", positive=True), sp.Symbol("Rinv", positive=True)
            # 1/R by what it is: a local initialised with 1 / <...>.max_model_depth()
            rinv_keys = set()
            for v_ in PF.walk():
                if v_.get("k") == "VarDecl" and v_.get("c"):
                    i_ = sc(v_["c"][0])
                    if i_ is not None and i_.get("k") == "BinaryOperator" and i_.get("op") == "/" and sc(i_["c"][0]).get("k") in ("IntegerLiteral", "FloatingLiteral") \
                            and float(sc(i_["c"][0])["v"]) == 1.0 and "max_model_depth" in norm.render(P, i_["c"][1]):
                        rinv_keys.add(v_["r"])

            def hook(nn):
                if nn.get("k") == "MemberExpr" and astq.is_this_field(P, nn) and re.match(r"buffer_around_\w+_cartesian$", nn.get("n", "")):
                    return B
                if nn.get("k") == "DeclRefExpr" and nn.get("r") in rinv_keys:
                    return Rinv
                if nn.get("k") == "DeclRefExpr" and P.d(nn["r"]).get("qn") == "WorldBuilder::Consts::PI":
                    return sp.pi
                return None
            v = norm.Sym(P, PF, inline_locals=False, hook=hook)(bufs[0]["c"][0])
            ratio = sp.simplify(v / (B * Rinv))
            n += 1
            if ratio.is_number and ratio.is_real and bool(ratio > 1):
                rep.ok(rule, "%s: spherical buffer = %s x (L+T)/R (factor > 1)" % (keyfield, ratio), PF.nloc(bufs[0]), PF.qn)
            else:
                rep.violation(rule, "%s: spherical buffer is %s x (L+T)/R" % (keyfield, ratio), PF.nloc(bufs[0]), PF.qn, norm.render(P, bufs[0]["c"][0])[:100],
                              "an arc of length L+T at depth subtends a larger angle than (L+T)/R at the surface: a buffer of at most that angle "
                              "cannot contain every point of the feature", key="%s|%s|buffer-factor" % (rule, cls),
                              witness="a long, shallowly dipping %s at mid/high latitude: points near its deep end fall outside the box" % keyfield)
    rep.floor(rule, n, 10, "culling conjuncts and buffers in slab and fault")


def accumulators(P, rep, rule="DEP.max"):
    rep.rule(rule, "maximum_*_thickness is the max over all sections, all segments and both thickness components; "
                   "maximum_total_*_length is the max over all sections of the sum of value_length over all segments of that section")
    from .layout import forward_loop
    for cls in ("WorldBuilder::Features::SubductingPlate", "WorldBuilder::Features::Fault"):
        F = P.func(cls + "::parse_entries")
        R = lambda n, F=F: norm.render(P, n, nocast=True, subst=norm.naming_locals(P, F)).replace(" ", "")
        thick_updates = []
        len_updates = []
        for x in F.walk():
            if x.get("k") == "BinaryOperator" and x.get("op") == "=":
                t = sc(x["c"][0])
                r = sc(x["c"][1])
                if t.get("k") == "MemberExpr" and astq.is_this_field(P, t) and r.get("k") == "CallExpr" and P.d(r.get("callee")).get("qn") == "std::max":
                    a = [sc(z) for z in r["c"][1:]]
                    if any(z.get("k") == "MemberExpr" and z.get("r") == t["r"] for z in a):
                        other = [z for z in a if not (z.get("k") == "MemberExpr" and z.get("r") == t["r"])]
                        if "thickness" in t["n"]:
                            thick_updates.append((x, other[0] if other else None))
                        elif "length" in t["n"]:
                            len_updates.append((x, other[0] if other else None))
        problems = []
        comps = set()
        for x, o in thick_updates:
            loops = [a for a in F.ancestors(x) if a.get("k") == "ForStmt"]
            if len(loops) < 2:
                problems.append("thickness maximum is not inside the section x segment loops")
                continue
            ok_loops = all(forward_loop(P, F, l)[0] for l in loops[:2])
            b_in = R(forward_loop(P, F, loops[0])[2]) if ok_loops else ""
            b_out = R(forward_loop(P, F, loops[1])[2]) if ok_loops else ""
            if not (ok_loops and re.match(r"^segment_vector\[\w+\]\.size\(\)$", b_in) and b_out == "segment_vector.size()"):
                problems.append("thickness maximum loops run over %s / %s" % (b_out or "?", b_in or "?"))
            s = astq.subscript(o) if o is not None else None
            if s and sc(s[1]).get("k") == "IntegerLiteral":
                comps.add(sc(s[1])["v"])
        if comps != {0, 1}:
            problems.append("thickness maximum covers components %s, not both [0] and [1]" % sorted(comps))
        if len(len_updates) != 1:
            problems.append("%d updates of the maximum total length" % len(len_updates))
        else:
            x, o = len_updates[0]
            loops = [a for a in F.ancestors(x) if a.get("k") == "ForStmt"]
            if len(loops) != 1 or not forward_loop(P, F, loops[0])[0] or R(forward_loop(P, F, loops[0])[2]) != "segment_vector.size()":
                problems.append("maximum total length is not updated once per section")
            elif o is None or o.get("k") != "DeclRefExpr":
                problems.append("maximum total length is not taken over the per-section sum")
            else:
                lk = o["r"]
                decl = [d for d in F.walk(loops[0]["c"][3]) if d.get("k") == "VarDecl" and d.get("r") == lk]
                adds = [a for a in F.walk(loops[0]["c"][3]) if a.get("k") == "CompoundAssignOperator" and a.get("op") == "+=" and astq.is_ref_to(a["c"][0], lk)]
                if len(decl) != 1 or not decl[0].get("c") or float(sc(decl[0]["c"][0]).get("v", 1)) != 0.0:
                    problems.append("per-section length sum is not reset to 0 inside the section loop")
                if len(adds) != 1 or not re.match(r"^segment_vector\[\w+\]\[\w+\]\.value_length$", R(adds[0]["c"][1])):
                    problems.append("per-section length sum adds %s" % (R(adds[0]["c"][1]) if adds else "nothing"))
                else:
                    il = [a for a in F.ancestors(adds[0]) if a.get("k") == "ForStmt"]
                    if len(il) != 2 or not forward_loop(P, F, il[0])[0] or not re.match(r"^segment_vector\[\w+\]\.size\(\)$", R(forward_loop(P, F, il[0])[2])):
                        problems.append("per-section length sum does not run over all segments")
                    if adds[0]["i"] > x["i"]:
                        problems.append("the maximum is updated before the section's lengths are summed")
        if problems:
            for pr in problems:
                rep.violation(rule, "%s: %s" % (cls.split("::")[-1], pr), F.loc, F.qn, "", "the depth cut-off and the bounding-box buffer underestimate the feature",
                              key="%s|%s|%s" % (rule, cls, pr[:30]), witness="a feature whose longest/thickest segment is in the last section")
        else:
            rep.ok(rule, "%s: thickness max over sections x segments x {0,1}; length max over sections of the per-section sum" % cls.split("::")[-1], F.loc, F.qn)


# reads of the feature-wide bound that today's models make on purpose (confirmed by reading; count = number of reads)
LOCAL_BOUND_EXCEPTIONS = {
    ("OceanicPlateModels::Temperature::PlateModel::get_temperature", "max_depth"): (None, "the plate thickness L of the plate model is the feature-wide maximum depth"),
    ("OceanicPlateModels::Temperature::PlateModel::get_temperature", "min_depth"): (1, "the ridge distance is taken at the feature-wide top"),
    ("OceanicPlateModels::Temperature::PlateModelConstantAge::get_temperature", "max_depth"): (None, "the plate thickness L of the plate model is the feature-wide maximum depth"),
    ("OceanicPlateModels::Temperature::HalfSpaceModel::get_temperature", "min_depth"): (1, "the ridge distance is taken at the feature-wide top"),
}


def surface_pairing(P, rep, rule="DEP.surfaces"):
    """min_depth <- min_depth_surface.minimum, max_depth <- max_depth_surface.maximum;
    X_depth_local = X_depth_surface.constant_value ? X_depth : X_depth_surface.local_value(...)"""
    rep.rule(rule, "wherever depth surfaces are used: min_depth_surface is built from \"min depth\" and min_depth is its minimum, "
                   "max_depth_surface from \"max depth\" and max_depth its maximum (the constant pre-test bounds enclose the local "
                   "surface); every local depth is `S.constant_value ? bound : S.local_value(...)` with S and bound of the same side")
    n = 0
    for qn in sorted(P.records):
        if not qn.startswith("WorldBuilder::Features::"):
            continue
        fields = {P.d(f).get("n") for f in P.records[qn].get("fields", [])}
        if not {"min_depth_surface", "max_depth_surface"} <= fields:
            continue
        for F in [f for f in P.funcs.values() if f.qn.rsplit("::", 1)[0] == qn and f.body is not None]:
            for x in F.walk():
                # parse-time pairing
                if x.get("k") in ("BinaryOperator", "CXXOperatorCallExpr") and x.get("op") == "=" and len(x.get("c", [])) > 1:
                    t = sc(x["c"][0])
                    if t.get("k") == "MemberExpr" and astq.is_this_field(P, t):
                        r = sc(x["c"][1])
                        if t["n"] in ("min_depth", "max_depth") and r.get("k") == "MemberExpr" and r.get("n") in ("minimum", "maximum"):
                            n += 1
                            side = t["n"][:3]
                            base = sc(r["c"][0])
                            good = base.get("n") == side + "_depth_surface" and r["n"] == {"min": "minimum", "max": "maximum"}[side]
                            if good:
                                rep.ok(rule, "%s: %s = %s.%s" % (qn.split("Features::")[-1], t["n"], base.get("n"), r["n"]), F.nloc(x), F.qn)
                            else:
                                rep.violation(rule, "%s: %s = %s.%s" % (qn, t["n"], base.get("n"), r["n"]), F.nloc(x), F.qn, norm.render(P, x)[:100],
                                              "the constant pre-test bound does not enclose the local depth surface: points inside are discarded early",
                                              key="%s|%s|%s" % (rule, qn, t["n"]), witness="a %s depth given as values at points" % side)
                        if t["n"] in ("min_depth_surface", "max_depth_surface"):
                            n += 1
                            key = None
                            for y in F.walk(r):
                                if y.get("k") == "StringLiteral":
                                    key = y.get("v")
                            want = t["n"][:3] + " depth"
                            if key == want:
                                rep.ok(rule, "%s: %s <- \"%s\"" % (qn.split("Features::")[-1], t["n"], key), F.nloc(x), F.qn)
                            else:
                                rep.violation(rule, "%s: %s is built from \"%s\"" % (qn, t["n"], key), F.nloc(x), F.qn, norm.render(P, x)[:100], "expected \"%s\"" % want,
                                              key="%s|%s|%s|key" % (rule, qn, t["n"]), witness="different min and max depth")
                # query-time local depths
                if x.get("k") == "VarDecl" and x.get("c") and sc(x["c"][0]).get("k") == "ConditionalOperator":
                    c, a, b = [sc(z) for z in sc(x["c"][0])["c"]]
                    if c.get("k") == "MemberExpr" and c.get("n") == "constant_value":
                        n += 1
                        s_c = sc(c["c"][0]).get("n", "")
                        bound = a.get("n", "") if a.get("k") == "MemberExpr" else "?"
                        lv = astq.member_call(P, sc(b["c"][0]) if b.get("k") == "MemberExpr" and b.get("c") else b, "local_value")
                        s_l = sc(lv[0]).get("n", "") if lv else "?"
                        val = b.get("n") if b.get("k") == "MemberExpr" else "?"
                        side = s_c[:3]
                        good = s_c == side + "_depth_surface" and s_l == s_c and bound == side + "_depth" and val == "interpolated_value"
                        if good:
                            rep.ok(rule, "%s: %s = %s.constant_value ? %s : %s.local_value(...)" % (F.qn.split("Features::")[-1], x.get("n"), s_c, bound, s_l), F.nloc(x), F.qn)
                        else:
                            rep.violation(rule, "%s: %s mixes %s / %s / %s" % (F.qn, x.get("n"), s_c, bound, s_l), F.nloc(x), F.qn, norm.render(P, x["c"][0])[:140],
                                          "the local depth of one side is taken from the other side's surface or constant", key="%s|%s|%s" % (rule, F.qn, x.get("n")),
                                          witness="constant min depth with a max depth given as values at points (or vice versa)")
    rep.floor(rule, n, 150, "depth-surface pairings")
    # once the local bound exists, the constant bound is not used any more
    rule2 = rule + ".local"
    rep.rule(rule2, "in a function that defines X_local = S.constant_value ? X : S.local_value(...), the constant bound X (the extreme of "
                    "the whole surface) is read only in that definition and in the enclosing pre-test `depth <= max_depth && depth >= "
                    "min_depth`; everything computed afterwards uses the local bound, so the value at a point depends on the depth "
                    "listed there and not on the extreme over all listed points")
    m = 0
    for F in P.funcs.values():
        if F.body is None or not F.qn.startswith("WorldBuilder::Features::"):
            continue
        locs = []
        for x in F.walk():
            if x.get("k") == "VarDecl" and x.get("c") and sc(x["c"][0]).get("k") == "ConditionalOperator":
                c, a, b = [sc(z) for z in sc(x["c"][0])["c"]]
                if c.get("k") == "MemberExpr" and c.get("n") == "constant_value" and a.get("k") == "MemberExpr" and astq.is_this_field(P, a):
                    locs.append((x, a))
        for x, a in locs:
            m += 1
            allowed = {y["i"] for y in F.walk(x)}
            for anc in F.ancestors(x):
                if anc.get("k") == "IfStmt":
                    allowed |= {y["i"] for y in F.walk(anc["c"][0])}
            # a comparison against the bound in any if-condition is a (possibly redundant) range test, not a use of its value
            for cmpn in F.walk():
                # a comparison yields a truth value wherever it is written (if-condition, named bool, ternary condition)
                if cmpn.get("k") == "BinaryOperator" and cmpn.get("op") in ("<", "<=", ">", ">="):
                    allowed |= {y["i"] for y in F.walk(cmpn)}
            bad = [y for y in F.walk() if y.get("k") == "MemberExpr" and y.get("r") == a["r"] and astq.is_this_field(P, y) and y["i"] not in allowed]
            exc = LOCAL_BOUND_EXCEPTIONS.get((F.qn.split("Features::")[-1], a.get("n")))
            if exc is not None and (exc[0] is None or len(bad) <= exc[0]):
                rep.ok(rule2, "%s: %d use(s) of %s kept by design (%s)" % (F.qn.split("Features::")[-1], len(bad), a.get("n"), exc[1]), F.nloc(x), F.qn)
                continue
            # reads of the bound that precede the definition in an earlier, already finished statement are pre-tests too
            bad = [y for y in bad if (y.get("l") or 0) >= (x.get("l") or 0) or any(z is y for z in F.walk(astq.enclosing(F, x, ("CompoundStmt",)) or x))]
            if bad:
                y = bad[0]
                rep.violation(rule2, "%s reads the constant bound %s although %s is defined" % (F.qn, a.get("n"), x.get("n")), F.nloc(y), F.qn,
                              norm.render(P, astq.enclosing(F, y, ("VarDecl", "BinaryOperator", "CallExpr", "CXXMemberCallExpr", "ReturnStmt")) or y)[:140],
                              "the value is computed from the extreme of the depth surface instead of its value at the point",
                              key="%s|%s|%s" % (rule2, F.qn, a.get("n")), witness="a %s given as values at points, queried away from its extreme" % a.get("n", "").replace("_", " "))
            else:
                rep.ok(rule2, "%s: %s only in the pre-test and in the definition of %s" % (F.qn.split("Features::")[-1], a.get("n"), x.get("n")), F.nloc(x), F.qn)
    rep.floor(rule2, m, 60, "local depth definitions")


def surface_fallback(P, rep, rule="G3.surface"):
    rep.rule(rule, "Surface::local_value reaches its final throw only after a scan over ALL triangles (range-for over every tree node, or a "
                   "forward loop from 0), testing the query point and, in spherical worlds, its 2*pi alias: the kd-tree is then a pure "
                   "optimisation")
    F = P.func("WorldBuilder::Objects::Surface::local_value")
    throws = [x for x in F.walk() if x.get("k") == "DoStmt" and x.get("m") == "WBAssertThrow"]
    if len(throws) != 1:
        rep.unknown(rule, "%d release-active throws in Surface::local_value" % len(throws))
        return
    T = throws[0]
    par = F.parent.get(T["i"])
    sibs = par["c"] if par is not None and par.get("k") == "CompoundStmt" else []
    prev = None
    for s in sibs:
        if s is T:
            break
        prev = s
    from .layout import forward_loop
    ok = False
    why = "the statement before the throw is not a loop over all triangles"
    if prev is not None and prev.get("k") == "CXXForRangeStmt":
        rng = norm.render(P, prev["c"][1], nocast=True, subst=norm.naming_locals(P, F)).replace(" ", "")
        if rng in ("tree.get_nodes()", "this->tree.get_nodes()", "triangles", "this->triangles"):
            ok = True
        else:
            why = "the last-resort loop ranges over %s, not over all nodes" % rng
    elif prev is not None and prev.get("k") == "ForStmt":
        okl, iv, bound = forward_loop(P, F, prev)
        b = norm.render(P, bound, nocast=True, subst=norm.naming_locals(P, F)).replace(" ", "") if bound is not None else ""
        if okl and b in ("tree.get_nodes().size()", "triangles.size()"):
            ok = True
        else:
            why = "the last-resort loop does not run from 0 to the number of triangles (%s)" % (norm.render(P, prev["c"][0])[:40] + " ; " + b)
    if ok:
        body = prev["c"][-1]
        calls = [x for x in F.walk(body) if x.get("k") in ("CallExpr", "CXXMemberCallExpr") and P.d(x.get("callee")).get("n") == "in_triangle"]
        pts = {norm.render(P, c["c"][3 if c["k"] == "CallExpr" else 3]) for c in calls}
        rets = [x for x in F.walk(body) if x.get("k") == "ReturnStmt"]
        if not calls:
            rep.unknown(rule, "Surface::local_value: the full scan does not call in_triangle directly (restructured?)")
            return
        if not ({"check_point", "other_point"} <= pts and len(rets) >= 2):
            ok = False
            why = "the full scan tests %s (expected the point and its alias, each returning on success)" % sorted(pts)
        # nothing between the loop and the throw, and no early exit from the loop other than return
        if any(x.get("k") in ("BreakStmt",) for x in F.walk(body)):
            ok = False
            why = "the full scan can be left by break"
        if any(x.get("k") in ("ContinueStmt",) for x in F.walk(body)):
            ok = False
            why = "the full scan skips some triangles (continue): it no longer tests every triangle against the point and its alias"
        # a test that is skipped under a flag array: the flags must be set and read in the same index space (the index fields are
        # the same member of the same record), else triangles that were never tested are skipped
        for c in calls:
            for a in F.ancestors(c):
                if a is prev:
                    break
                conds = []
                if a.get("k") == "IfStmt":
                    conds = [a["c"][0]]
                for cnd in conds:
                    for y in F.walk(cnd):
                        sb = astq.subscript(y)
                        if not sb or sc(sb[0]).get("k") != "DeclRefExpr" or P.d(sc(sb[0])["r"]).get("storage") != "local":
                            continue
                        flag = sc(sb[0])["r"]
                        rd = sc(sb[1])
                        writes = []
                        for w in F.walk():
                            if w.get("k") in ("BinaryOperator", "CXXOperatorCallExpr") and w.get("op") == "=":
                                kids = [z for z in w["c"] if z is not None]
                                ws = astq.subscript(sc(kids[-2]))
                                if ws and astq.is_ref_to(sc(ws[0]), flag):
                                    writes.append(sc(ws[1]))
                        for wr in writes:
                            same = rd.get("k") == "MemberExpr" and wr.get("k") == "MemberExpr" and rd.get("r") == wr.get("r")
                            if not same:
                                ok = False
                                why = ("the full scan skips a triangle when %s[%s] is set, but the flags are set at [%s]: a different index space "
                                       "(%s vs %s)" % (P.d(flag).get("n"), norm.render(P, rd), norm.render(P, wr),
                                                       P.d(rd.get("r")).get("qn") or norm.render(P, rd), P.d(wr.get("r")).get("qn") or norm.render(P, wr)))
    if ok:
        rep.ok(rule, "local_value: full scan over tree.get_nodes() (point and alias) precedes the throw", F.nloc(prev), F.qn)
    else:
        rep.violation(rule, "Surface::local_value: %s" % why, F.nloc(prev) if prev is not None else F.loc, F.qn, "",
                      "a point inside the triangulated footprint can be reported as 'not in any triangle' depending on what the kd-tree visited",
                      key=rule + "|fullscan", witness="a depth surface mixing small and large triangles")


def triangle_pairing(P, rep, rule="G3.surface.pairing"):
    """every in_triangle test uses one triangle: its vertices, its precomputed coefficients and the reported index belong together"""
    rep.rule(rule, "Surface::local_value: every call in_triangle(triangles[i], in_triangle_precomputed[j], ...) has i == j, and the "
                   "SurfaceValueInfo returned on success carries that same index")
    F = P.func("WorldBuilder::Objects::Surface::local_value")
    R = lambda e: norm.render(P, e, nocast=True, subst=norm.naming_locals(P, F)).replace(" ", "")
    n = 0
    for c in F.walk():
        if c.get("k") not in ("CallExpr",) or P.d(c.get("callee")).get("n") != "in_triangle":
            continue
        a = c["c"][1:]
        s0, s1 = astq.subscript(sc(a[0])), astq.subscript(sc(a[1]))
        if not s0 or not s1:
            rep.unknown(rule, "in_triangle called with %s, %s" % (R(a[0])[:40], R(a[1])[:40]))
            continue
        n += 1
        i0, i1 = R(s0[1]), R(s1[1])
        problems = []
        if i0 != i1:
            problems.append("vertices of triangle [%s] are tested with the coefficients of triangle [%s]" % (i0, i1))
        g = astq.enclosing(F, c, ("IfStmt",))
        if g is not None and any(y is c for y in F.walk(g["c"][0])):
            for r in F.walk(g["c"][1]):
                if r.get("k") == "ReturnStmt" and r.get("c"):
                    els = [z for z in F.walk(r["c"][0]) if z.get("k") == "InitListExpr"]
                    if els and els[0].get("c"):
                        got = R(els[0]["c"][0])
                        if got != i0:
                            problems.append("the result reports triangle [%s]" % got)
        if problems:
            rep.violation(rule, "in_triangle at line %s: %s" % (c.get("l"), "; ".join(problems)), F.nloc(c), F.qn, norm.render(P, c)[:140],
                          "the depth comes from another triangle than the one that contains the point", key="%s|%s" % (rule, i0 + "/" + i1),
                          witness="a spherical depth surface across the date line with many points, query east of 180")
        else:
            rep.ok(rule, "in_triangle at line %s: triangle [%s] throughout" % (c.get("l"), i0), F.nloc(c), F.qn)
    rep.floor(rule, n, 6, "in_triangle tests in Surface::local_value")


def alias_callers(P, rep, rule="WHO.alias"):
    rep.rule(rule, "the longitude-alias-unaware implementations polygon_contains_point_implementation and "
                   "BoundingBox::point_inside_implementation are called only from their alias-aware wrappers")
    table = {"polygon_contains_point_implementation": "polygon_contains_point", "point_inside_implementation": "point_inside"}
    n = 0
    for impl, wrapper in table.items():
        targets = [k for k, d in P.decls.items() if d.get("n") == impl and d.get("k") in ("Function", "CXXMethod")]
        if not targets:
            raise AnalysisBroken("%s not found" % impl)
        for t in targets:
            for F, node in P.callsites.get(t, []):
                n += 1
                if F.name == wrapper:
                    rep.ok(rule, "%s called from %s" % (impl, F.qn), F.nloc(node), F.qn)
                else:
                    rep.violation(rule, "%s called from %s" % (impl, F.qn), F.nloc(node), F.qn, norm.render(P, node)[:80], "the +-2*pi alias of the point is not tried",
                                  key="%s|%s|%s" % (rule, impl, F.qn), witness="spherical feature straddling the 180 meridian, point given with the other longitude sign")
    rep.floor(rule, n, 3, "call sites of alias-unaware implementations")


# ------------------------------------------------------------------------------------------------
def bbox_longitude_buffer(P, rep, rule="DEP.bbox-lon"):
    """the longitude buffer of the spherical bounding box of a slab / fault dominates buffer/cos(latitude) at both ends of the trench"""
    rep.rule(rule, "the spherical bounding box of a slab / fault is [min_lon - b*k_w, max_lon + b*k_e] x [min_lat - b, max_lat + b]: an angular "
                   "distance b corresponds to b/cos(lat) in longitude, so both k_w and k_e must be at least 1/cos(min_lat) and 1/cos(max_lat) "
                   "(the stretch of the poleward edge), whichever hemisphere the trench is in; decided on the extracted expressions "
                   "(k = max of both factors, or a term sympy proves to dominate both)")
    from .segments import LINE
    n = 0
    for name, cls in LINE.items():
        fs = [F for F in P.funcs.values() if F.qn.startswith(cls + "::") and F.body is not None and
              any(y.get("k") == "DeclRefExpr" and "spherical_bounding_box" == y.get("n") for y in F.walk(F.body))]
        if len(fs) != 1:
            rep.unknown(rule, "%s: the function that sets the spherical bounding box was not identified (%d candidates)" % (name, len(fs)))
            continue
        F = fs[0]
        # unique assignments to fields of this class in F: field key -> rhs
        fasg = {}
        for y in F.walk(F.body):
            if y.get("k") in ("BinaryOperator",) and y.get("op") == "=":
                t = sc(y["c"][0])
                if t is not None and t.get("k") == "MemberExpr" and astq.is_this_field(P, t):
                    fasg.setdefault(t["r"], []).append(y["c"][1])
        miny, maxy, minx, maxx = sp.symbols("min_lat max_lat min_lon max_lon", real=True)
        role = {"min_along_y": miny, "max_along_y": maxy, "min_along_x": minx, "max_along_x": maxx}

        def hook(nn, depth=[0]):
            if nn.get("k") == "MemberExpr" and astq.is_this_field(P, nn):
                if nn.get("n") in role:
                    return role[nn["n"]]
                rh = fasg.get(nn["r"])
                if rh and len(rh) >= 1 and depth[0] < 6:
                    depth[0] += 1
                    try:
                        return S(rh[-1])
                    finally:
                        depth[0] -= 1
            if nn.get("k") == "DeclRefExpr" and P.d(nn["r"]).get("qn") == "WorldBuilder::Consts::PI":
                return sp.pi
            return None
        S = norm.Sym(P, F, inline_locals=True, hook=hook)
        corners = {}
        for y in F.walk(F.body):
            if y.get("k") in ("BinaryOperator", "CXXOperatorCallExpr") and y.get("op") == "=":
                kids = [x for x in y["c"] if x is not None]
                t = sc(kids[-2])
                if t is not None and t.get("k") == "MemberExpr" and t.get("n") in ("first", "second") and t.get("c") and sc(t["c"][0]).get("n") == "spherical_bounding_box":
                    # the two scalar entries of the initialiser
                    leaves = []

                    def scal(nd):
                        nd0 = sc(nd)
                        if nd0 is None:
                            return
                        if (nd0.get("t") or "").replace("const ", "") == "double" and nd0.get("k") not in ("InitListExpr",):
                            leaves.append(nd0)
                            return
                        for c_ in nd0.get("c") or []:
                            if c_ is not None:
                                scal(c_)
                    scal(kids[-1])
                    if len(leaves) >= 2:
                        corners[t["n"]] = (y, leaves[0], leaves[1])
        if set(corners) != {"first", "second"}:
            rep.unknown(rule, "%s: the two corners of the spherical bounding box are not assigned as {lon, lat, spherical}" % name)
            continue
        n += 1
        try:
            lo_lon, lo_lat = S(corners["first"][1]), S(corners["first"][2])
            hi_lon, hi_lat = S(corners["second"][1]), S(corners["second"][2])
        except Exception as e:
            rep.unknown(rule, "%s: %s" % (name, e))
            continue
        def minmax(e):
            """(a < b) ? b : a and its variants are max(a, b) / min(a, b)"""
            def fix(x):
                c_, t_, f_ = x.args
                if isinstance(c_, (sp.Lt, sp.Le, sp.Gt, sp.Ge)) and {sp.simplify(c_.args[0] - t_), sp.simplify(c_.args[0] - f_)} == {0, sp.simplify(c_.args[0] - c_.args[1])} | {0}:
                    lhs_is_t = sp.simplify(c_.args[0] - t_) == 0
                    less = isinstance(c_, (sp.Lt, sp.Le))
                    # cond true -> t_.  (lhs < rhs) ? lhs : rhs = min ; (lhs < rhs) ? rhs : lhs = max
                    pick_smaller = (less and lhs_is_t) or (not less and not lhs_is_t)
                    return sp.Min(t_, f_) if pick_smaller else sp.Max(t_, f_)
                return x
            return e.replace(lambda x: getattr(x.func, "__name__", "") == "ite" and len(x.args) == 3, fix)
        lo_lon, lo_lat, hi_lon, hi_lat = [minmax(e_) for e_ in (lo_lon, lo_lat, hi_lon, hi_lat)]
        b_lo, b_hi = sp.simplify(miny - lo_lat), sp.simplify(hi_lat - maxy)
        problems = []
        if sp.simplify(b_lo - b_hi) != 0 or b_lo == 0 or b_lo.has(miny) or b_lo.has(maxy):
            problems.append(("lat", "the latitude range is [%s, %s], not [min_lat - b, max_lat + b] with one buffer b" % (lo_lat, hi_lat)))
        else:
            c1, c2 = sp.symbols("cos_min_lat cos_max_lat", positive=True)
            for side, k in (("western", sp.simplify((minx - lo_lon) / b_lo)), ("eastern", sp.simplify((hi_lon - maxx) / b_lo))):
                k2 = k.subs({sp.cos(miny): c1, sp.cos(maxy): c2})
                if k2.free_symbols - {c1, c2}:
                    problems.append((side, "the %s longitude buffer is b*(%s), which depends on more than the two end latitudes" % (side, k)))
                    continue
                dominated = []
                for c_, what in ((c1, "min_lat"), (c2, "max_lat")):
                    d_ = sp.simplify(k2 - 1 / c_)
                    okd = d_ == 0 or d_.is_nonnegative is True or (isinstance(k2, sp.Max) and any(sp.simplify(a_ - 1 / c_) == 0 or (a_ - 1 / c_).is_nonnegative for a_ in k2.args))
                    if not okd:
                        dominated.append(what)
                if dominated:
                    problems.append((side, "the %s longitude buffer is b*(%s): it is not at least b/cos(%s)" % (side, k, "), b/cos(".join(dominated))))
        if problems:
            for key, why in problems:
                rep.violation(rule, "%s: %s" % (name, why), F.nloc(corners["first"][0]), F.qn, norm.render(P, corners["first"][0])[:140],
                              "at high latitudes the box is too narrow on that side: members of the feature are discarded by the bounding-box shortcut",
                              key="%s|%s|%s" % (rule, name, key), witness="a trench from latitude 10 to 84 along a meridian, dipping west: points at latitude 83.9, 350 km west of it")
        else:
            rep.ok(rule, "%s: both longitude buffers are b*max(1/cos(min_lat), 1/cos(max_lat))" % name, F.nloc(corners["first"][0]), F.qn)
    rep.floor(rule, n, 2, "spherical bounding boxes")


# ------------------------------------------------------------------------------------------------
def depth_defaults(P, rep, rule="SCHEMA.depth-defaults"):
    """the default of a depth given as values at points is the default of the same depth given as a number"""
    rep.rule(rule, "every declare_entry(\"min depth\" / \"max depth\", OneOf(Double(d), Array(ValueAtPoints(d', ...)))) has d' = d: a polygon "
                   "corner that the list does not mention gets the documented default of the scalar form (0 / the largest double)")
    n = 0
    for F in P.funcs.values():
        if F.body is None or not F.name.startswith("declare_entries"):
            continue
        for x in F.walk():
            if x.get("k") != "CXXMemberCallExpr" or P.d(x.get("callee")).get("n") != "declare_entry":
                continue
            args = [a for a in x["c"][1:] if a is not None]
            if len(args) < 2:
                continue
            lits = [y.get("v") for y in F.walk(args[0]) if y.get("k") == "StringLiteral"]
            if not lits or lits[0] not in ("min depth", "max depth"):
                continue

            def default_of(tname):
                out = []
                for y in F.walk(args[1]):
                    if y.get("k") in ("CXXConstructExpr", "CXXTemporaryObjectExpr", "CXXFunctionalCastExpr") and (y.get("t") or "").replace("const ", "").endswith(tname):
                        a_ = [z for z in (y.get("c") or []) if z is not None and z.get("k") != "CXXDefaultArgExpr"]
                        if a_ and not ((sc(a_[0]).get("t") or "").replace("const ", "").endswith(tname)):
                            out.append(a_[0])
                return out
            ds, vs = default_of("Types::Double"), default_of("Types::ValueAtPoints")
            if not vs:
                continue
            n += 1
            if len(ds) != 1 or len(vs) != 1:
                rep.unknown(rule, "%s \"%s\": %d scalar / %d point-list alternatives" % (F.qn, lits[0], len(ds), len(vs)))
                continue

            def val(e):
                e0 = sc(e)
                if e0.get("k") in ("IntegerLiteral", "FloatingLiteral"):
                    return float(e0["v"])
                return norm.render(P, e, nocast=True).replace(" ", "")
            a, b = val(ds[0]), val(vs[0])
            cls = F.qn.rsplit("::", 1)[0].replace("WorldBuilder::Features::", "")
            if a == b:
                rep.ok(rule, "%s \"%s\": both forms default to %s" % (cls, lits[0], a), F.nloc(x), F.qn)
            else:
                rep.violation(rule, "%s \"%s\": the scalar form defaults to %s, unlisted corners of the point list to %s" % (cls, lits[0], a, b), F.nloc(x), F.qn,
                              norm.render(P, args[1])[:160], "a polygon corner that is not listed does not get the documented default",
                              key="%s|%s|%s" % (rule, cls, lits[0]), witness="a %s given as one listed point inside the polygon: the feature %s towards the unlisted corners" % (
                                  lits[0], "thins to nothing" if lits[0] == "max depth" else "starts deeper"))
    rep.floor(rule, n, 40, "depth entries with a values-at-points alternative")


# ------------------------------------------------------------------------------------------------
def bbox_extremes(P, rep, rule="DEP.bbox-extremes"):
    """the four extreme coordinates the surface bounding box of a slab / fault is built from"""
    rep.rule(rule, "SubductingPlate / Fault::parse_entries: min_along_x / max_along_x / min_along_y / max_along_y are component 0 / 0 / 1 / 1 of the "
                   "minimum / maximum / minimum / maximum element of all trench coordinates under a comparison of that same component")
    n = 0
    want = {"min_along_x": ("min", 0), "max_along_x": ("max", 0), "min_along_y": ("min", 1), "max_along_y": ("max", 1)}
    for cls in ("WorldBuilder::Features::SubductingPlate", "WorldBuilder::Features::Fault"):
        F = P.func(cls + "::parse_entries")
        inits = {x["r"]: x["c"][0] for x in F.walk() if x.get("k") == "VarDecl" and x.get("c")}

        def comparator_component(e):
            """the component compared by the lambda passed as comparator: p1[j] < p2[j]"""
            for y in F.walk(e):
                lam = None
                if y.get("k") == "LambdaExpr":
                    lam = y
                elif y.get("k") == "DeclRefExpr" and y.get("r") in inits:
                    lam = next((z for z in F.walk(inits[y["r"]]) if z.get("k") == "LambdaExpr"), None)
                if lam is None:
                    continue
                for key in (lam.get("lams") or []) + ([lam["lam"]] if lam.get("lam") else []):
                    G = P.funcs.get(key)
                    if G is None or G.body is None:
                        continue
                    rets = [r for r in G.walk() if r.get("k") == "ReturnStmt" and r.get("c")]
                    if len(rets) != 1:
                        return None
                    c = sc(rets[0]["c"][0])
                    if c.get("k") != "BinaryOperator" or c.get("op") != "<":
                        return None
                    sl, sr = astq.subscript(sc(c["c"][0])), astq.subscript(sc(c["c"][1]))
                    if not sl or not sr:
                        return None
                    il, ir = sc(sl[1]), sc(sr[1])
                    if il.get("k") != "IntegerLiteral" or ir.get("k") != "IntegerLiteral" or il["v"] != ir["v"]:
                        return None
                    if not (astq.is_ref_to(sc(sl[0]), G.params[0]) and astq.is_ref_to(sc(sr[0]), G.params[1])):
                        return None
                    return int(il["v"])
            return None

        def resolve(e):
            """(kind, comparator component, range text) of an iterator-valued expression"""
            e = sc(e)
            if e.get("k") == "CallExpr":
                qn = P.d(e.get("callee")).get("qn")
                if qn in ("std::min_element", "std::max_element", "std::minmax_element"):
                    a = e["c"][1:]
                    if len(a) != 3:
                        return None
                    b, en = norm.render(P, a[0], nocast=True).replace(" ", ""), norm.render(P, a[1], nocast=True).replace(" ", "")
                    if not (b.endswith(".begin()") and en.endswith(".end()") and b[:-8] == en[:-6]):
                        return None
                    return ({"std::min_element": "min", "std::max_element": "max", "std::minmax_element": "minmax"}[qn], comparator_component(a[2]), b[:-8])
            if e.get("k") == "MemberExpr" and e.get("n") in ("first", "second") and e.get("c"):
                base = resolve(e["c"][0])
                if base and base[0] == "minmax":
                    return ("min" if e["n"] == "first" else "max", base[1], base[2])
            if e.get("k") == "DeclRefExpr" and e.get("r") in inits:
                return resolve(inits[e["r"]])
            if e.get("k") in ("CXXConstructExpr", "MaterializeTemporaryExpr", "CXXBindTemporaryExpr", "ExprWithCleanups") and e.get("c"):
                kids = [z for z in e["c"] if z is not None]
                if len(kids) == 1:
                    return resolve(kids[0])
            return None
        for x in F.walk():
            if not (x.get("k") == "BinaryOperator" and x.get("op") == "=" and sc(x["c"][0]).get("k") == "MemberExpr" and astq.is_this_field(P, sc(x["c"][0]))
                    and sc(x["c"][0]).get("n") in want):
                continue
            fld = sc(x["c"][0])["n"]
            n += 1
            kind_w, comp_w = want[fld]
            s = astq.subscript(sc(x["c"][1]))
            got = None
            if s and sc(s[1]).get("k") == "IntegerLiteral":
                it = sc(s[0])
                if it.get("k") in ("CXXOperatorCallExpr", "UnaryOperator") and it.get("op") == "*":
                    r0 = resolve(it["c"][-1])
                    if r0:
                        got = (r0[0], r0[1], int(sc(s[1])["v"]), r0[2])
            inst = "%s: %s" % (cls.split("::")[-1], fld)
            if got is None:
                rep.unknown(rule, "%s is not component k of an extreme element (%s)" % (inst, norm.render(P, x["c"][1])[:80]))
            elif got[0] == kind_w and got[1] == comp_w and got[2] == comp_w and got[3] in ("coordinates", "this.coordinates", "this->coordinates"):
                rep.ok(rule, "%s = component %d of the %s element of the coordinates by component %d" % (inst, got[2], got[0], got[1]), F.nloc(x), F.qn)
            else:
                rep.violation(rule, "%s is component %s of the %s element of %s under a comparison of component %s" % (inst, got[2], got[0], got[3], got[1]),
                              F.nloc(x), F.qn, norm.render(P, x)[:160], "the surface bounding box does not span the trench: points of the feature are culled",
                              key="%s|%s|%s" % (rule, cls, fld), witness="a trench running north-west to south-east that is longer than the buffer")
    rep.floor(rule, n, 8, "extreme coordinates in slab and fault")
