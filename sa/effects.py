"""Effect analysis: which memory does a function write, in terms of roots that outlive it?

Roots (what an lvalue's storage ultimately lives in):
  ("local",)                automatic variable / by-value parameter / temporary of this call
  ("fresh",)                object created by `new` in this call
  ("param", i)              object passed in through reference/pointer/iterator parameter i
  ("this",)                 *this (including objects owned through smart-pointer / container members)
  ("captured", declkey)     a variable of the enclosing function captured by a lambda
  ("ptrfield", fieldkey)    object reached through a raw pointer / reference *member* (e.g. `world->`)
  ("global", declkey)       variable with static storage duration
  ("rng",)                  the result of World::get_random_number_engine()
  ("unknown", why)          anything the resolver does not understand

A function summary is the set of roots it may write (transitively), each with one sample site.
"""
import re
from collections import defaultdict

from .tu import AnalysisBroken

LOCAL = ("local",)
FRESH = ("fresh",)
THIS = ("this",)
RNG = ("rng",)

# library member functions that hand out a reference / pointer / iterator *into* their receiver
ACCESSORS = {
    "operator[]", "at", "front", "back", "begin", "end", "cbegin", "cend", "rbegin", "rend",
    "data", "operator*", "operator->", "get", "find", "lower_bound", "upper_bound", "value", "top",
    "GetArray", "GetObject", "Begin", "End", "MemberBegin", "MemberEnd", "FindMember", "GetString",
    "c_str", "base",
}
# non-const library member functions that do not modify what the receiver refers to
# (iterator stepping modifies the iterator variable itself, which is handled as a write to it)
ITER_TYPES = ("__normal_iterator", "_Rb_tree_iterator", "_Rb_tree_const_iterator", "_List_iterator",
              "_Node_iterator", "reverse_iterator", "_Deque_iterator", "_Bit_iterator",
              "GenericMemberIterator", "move_iterator", "back_insert_iterator", "insert_iterator")

# free library functions taking iterators/pointers by value: which argument positions are written
LIB_WRITERS = {
    "std::fill": [0], "std::fill_n": [0], "std::sort": [0, 1], "std::stable_sort": [0, 1],
    "std::nth_element": [0, 1, 2], "std::reverse": [0, 1], "std::rotate": [0, 1, 2],
    "std::iota": [0, 1], "std::copy": [2], "std::copy_n": [2], "std::move": [], "std::swap": [0, 1],
    "std::transform": [-1], "std::unique": [0, 1], "std::remove": [0, 1], "std::remove_if": [0, 1],
    "std::replace": [0, 1], "std::generate": [0, 1], "std::partial_sort": [0, 1, 2],
    "std::getline": [0, 1], "memcpy": [0], "memset": [0], "strcpy": [0], "std::inplace_merge": [0, 1, 2],
    "std::random_shuffle": [0, 1], "std::shuffle": [0, 1, 2], "std::iter_swap": [0, 1],
    "std::swap_ranges": [0, 1, 2], "std::copy_backward": [2], "std::partition": [0, 1],
    "std::for_each": [],
}
LIB_READONLY = {
    "std::min_element", "std::max_element", "std::minmax_element", "std::accumulate", "std::find",
    "std::find_if", "std::lower_bound", "std::upper_bound", "std::distance", "std::count", "std::count_if",
    "std::any_of", "std::all_of", "std::none_of", "std::equal", "std::inner_product", "std::advance",
    "std::next", "std::prev", "std::binary_search", "std::is_sorted", "std::search", "std::mismatch",
    "std::begin", "std::end", "std::make_move_iterator", "std::addressof", "std::back_inserter",
    "__gnu_cxx::operator!=", "__gnu_cxx::operator==", "__gnu_cxx::operator-", "__gnu_cxx::operator<",
    "__gnu_cxx::operator>", "__gnu_cxx::operator<=", "__gnu_cxx::operator>=", "__gnu_cxx::operator+",
    "std::operator==", "std::operator!=", "std::operator<", "std::operator+", "std::operator-",
    "std::operator>", "std::operator<=", "std::operator>=", "std::adjacent_find", "std::find_first_of",
    "strlen", "strcmp", "strncmp", "std::strlen", "std::stod", "std::stoi", "std::stol", "std::stoul",
    "atoi", "atof", "std::atoi", "std::atof", "std::to_string", "std::abs", "std::isnan", "std::isfinite",
    "std::max", "std::min", "std::pow", "std::forward", "std::get", "std::make_pair", "std::make_tuple",
    "std::tie", "std::ref", "std::cref", "std::make_unique", "std::make_shared", "std::move_if_noexcept",
    "std::setprecision", "std::setw", "std::setfill", "std::endl", "std::flush", "std::isinf", "std::signbit",
    "std::fabs", "std::sqrt", "std::round", "std::floor", "std::ceil", "std::fmod", "std::exp", "std::log",
    "std::sin", "std::cos", "std::tan", "std::atan2", "std::acos", "std::asin", "std::atan", "std::erfc",
    "std::erf", "std::hypot", "std::swap_ranges_", "std::isspace", "std::isdigit", "std::tolower", "std::toupper",
    "std::lexicographical_compare", "std::equal_range", "std::dynamic_pointer_cast", "std::static_pointer_cast",
    "std::fixed", "std::scientific", "std::left", "std::right", "std::boolalpha", "std::defaultfloat",
    "std::ws", "std::hex", "std::dec", "std::cbrt", "std::log10", "std::exp2", "std::log2", "std::trunc",
    "std::lround", "std::llround", "std::nearbyint", "std::copysign", "std::fmax", "std::fmin", "std::remainder",
    "std::frexp_", "std::tanh", "std::sinh", "std::cosh", "std::modf_", "std::fma", "std::rint",
}
# forwarding templates: an lvalue bound to a deduced `T&` parameter is read/copied, not written
LIB_FORWARDING = {
    "emplace_back", "emplace", "emplace_hint", "emplace_front", "make_pair", "make_tuple", "make_unique",
    "make_shared", "forward", "tie", "ref", "cref", "thread", "push_back", "insert", "pair", "tuple",
    "construct", "allocate_shared", "to_string", "forward_as_tuple", "bind", "async", "max", "min",
}


def is_iter_or_ptr_type(t):
    if not t:
        return False
    t = t.strip()
    if t.endswith("*") or t.endswith("* const"):
        return True
    return any(it in t for it in ITER_TYPES)


def pointee_const(t):
    """for a pointer / iterator type string: is the pointee const?"""
    t = t.strip()
    if t.endswith("*") or t.endswith("* const"):
        core = t[:t.rindex("*")].strip()
        return core.startswith("const ") or core.endswith(" const")
    m = re.search(r"__normal_iterator<\s*(const\s+)?", t)
    if m:
        return bool(m.group(1))
    if "const_iterator" in t or "_Rb_tree_const_iterator" in t:
        return True
    return False


class Effects:
    """per-program effect summaries"""

    def __init__(self, P):
        self.P = P
        self.summary = {}          # func key -> {root: (Func, node, note)}
        self.unknown_lib = {}      # qn -> sample site
        self._ret_alias = {}
        self._assign_cache = {}

    # ------------------------------------------------------------------ resolution
    def var_assignments(self, F, key):
        """expressions assigned to local `key` anywhere in F (besides its initialiser)"""
        ck = (F.key, None)
        tbl = self._assign_cache.get(ck)
        if tbl is None:
            tbl = defaultdict(list)
            for n in F.walk():
                k = n.get("k")
                if k in ("BinaryOperator", "CompoundAssignOperator") and n.get("op") == "=":
                    lhs = n["c"][0]
                    if lhs.get("k") == "DeclRefExpr":
                        tbl[lhs["r"]].append(n["c"][1])
                elif k == "CXXOperatorCallExpr" and n.get("op") == "=":
                    lhs = n["c"][0]
                    if lhs.get("k") == "DeclRefExpr" and len(n["c"]) > 1:
                        tbl[lhs["r"]].append(n["c"][1])
                elif k == "VarDecl" and n.get("c"):
                    tbl[("init", n["r"])].append(n["c"][0])
                elif k == "CXXForRangeStmt":
                    v = n["c"][0]
                    tbl[("range", v["r"])].append(n["c"][1])
            self._assign_cache[ck] = tbl
        return tbl

    def resolve(self, F, e, depth=0):
        """roots of the object in which the storage designated by lvalue/glvalue `e` lives.
        For prvalue class temporaries: LOCAL."""
        if e is None:
            return {LOCAL}
        if depth > 60:
            return {("unknown", "resolution too deep")}
        P = self.P
        k = e.get("k")
        t = e.get("t", "")
        if k == "DeclRefExpr":
            d = P.d(e["r"])
            dk = d.get("k")
            if dk in ("Var", "ParmVar", "Decomposition", "Binding"):
                return self.resolve_var(F, e["r"], d, depth)
            if dk in ("Function", "CXXMethod", "EnumConstant", "NonTypeTemplateParm"):
                return {LOCAL}
            return {("unknown", "DeclRef to %s" % dk)}
        if k == "MemberExpr":
            d = P.d(e["r"])
            if d.get("k") in ("CXXMethod", "Function", "EnumConstant", "CXXConstructor", "CXXDestructor", "CXXConversion"):
                base = e["c"][0] if e.get("c") else None
                return self.resolve_pointee(F, base, depth + 1) if e.get("arrow") else self.resolve(F, base, depth + 1)
            if d.get("storage") == "static_member" or d.get("k") == "Var":
                return {("global", e["r"])}
            if d.get("ref"):
                # storage designated is the referee of a reference member
                return {("ptrfield", e["r"])}
            base = e["c"][0] if e.get("c") else None
            if e.get("arrow"):
                return self.resolve_pointee(F, base, depth + 1)
            return self.resolve(F, base, depth + 1)
        if k == "CXXThisExpr":
            return {THIS}   # `*this` as an object
        if k == "UnaryOperator":
            op = e.get("op")
            if op == "*":
                return self.resolve_pointee(F, e["c"][0], depth + 1)
            if op in ("++", "--") and e.get("lv"):
                return self.resolve(F, e["c"][0], depth + 1)
            if op in ("__real", "__imag", "__extension__"):
                return self.resolve(F, e["c"][0], depth + 1)
            return {LOCAL}
        if k == "ArraySubscriptExpr":
            base = e["c"][0]
            bt = base.get("t", "")
            if bt.endswith("]"):
                return self.resolve(F, base, depth + 1)
            return self.resolve_pointee(F, base, depth + 1)
        if k in ("BinaryOperator", "CompoundAssignOperator"):
            op = e.get("op")
            if op in ("=", "+=", "-=", "*=", "/=", "%=", "|=", "&=", "^=", "<<=", ">>="):
                return self.resolve(F, e["c"][0], depth + 1)
            if op == ",":
                return self.resolve(F, e["c"][1], depth + 1)
            return {LOCAL}
        if k == "ConditionalOperator":
            return self.resolve(F, e["c"][1], depth + 1) | self.resolve(F, e["c"][2], depth + 1)
        if k in ("CStyleCastExpr", "CXXStaticCastExpr", "CXXConstCastExpr", "CXXReinterpretCastExpr",
                 "CXXFunctionalCastExpr", "CXXDynamicCastExpr"):
            if e.get("lv") or is_iter_or_ptr_type(t):
                return self.resolve(F, e["c"][0], depth + 1)
            return {LOCAL}
        if k in ("CXXOperatorCallExpr", "CXXMemberCallExpr", "CallExpr"):
            return self.resolve_call_result(F, e, depth, pointee=False)
        if k in ("CXXConstructExpr", "CXXTemporaryObjectExpr", "InitListExpr", "CXXNewExpr", "LambdaExpr",
                 "IntegerLiteral", "FloatingLiteral", "StringLiteral", "CXXBoolLiteralExpr", "CharacterLiteral",
                 "CXXNullPtrLiteralExpr", "GNUNullExpr", "CXXScalarValueInitExpr", "ImplicitValueInitExpr",
                 "UnaryExprOrTypeTraitExpr", "CXXThrowExpr", "CXXTypeidExpr", "PredefinedExpr"):
            return {LOCAL}
        if k in ("CXXDefaultArgExpr", "CXXDefaultInitExpr"):
            return self.resolve(F, e["c"][0], depth + 1) if e.get("c") else {LOCAL}
        return {("unknown", "lvalue form %s" % k)}

    def resolve_var(self, F, key, d, depth):
        P = self.P
        st = d.get("storage")
        if st in ("global", "static_member", "static_local"):
            return {("global", key)}
        own_fn = d.get("fn")
        if own_fn is not None and own_fn != F.key:
            # variable of an enclosing function seen from a lambda body
            return {("captured", key)}
        if st == "param":
            if d.get("ref"):
                return {("param", d.get("pidx", 0))}
            return {LOCAL}
        # local
        if d.get("ref"):
            tbl = self.var_assignments(F, key)
            out = set()
            for init in tbl.get(("init", key), []):
                out |= self.resolve(F, init, depth + 1)
            for rng in tbl.get(("range", key), []):
                out |= self.resolve_elements(F, rng, depth + 1)
            return out or {("unknown", "reference local without initialiser")}
        return {LOCAL}

    def resolve_elements(self, F, rng, depth):
        """roots of the elements of a range expression (container or array)"""
        return self.resolve(F, rng, depth + 1)

    def resolve_pointee(self, F, p, depth=0):
        """roots of the object a pointer-like expression points to"""
        if p is None:
            return {("unknown", "null pointee")}
        if depth > 60:
            return {("unknown", "resolution too deep")}
        P = self.P
        k = p.get("k")
        t = p.get("t", "")
        if k == "CXXThisExpr":
            return {THIS}
        if k == "DeclRefExpr":
            d = P.d(p["r"])
            if d.get("k") not in ("Var", "ParmVar"):
                return {("unknown", "pointer DeclRef to %s" % d.get("k"))}
            st = d.get("storage")
            if st in ("global", "static_member", "static_local"):
                return {("global", p["r"])}
            own_fn = d.get("fn")
            if own_fn is not None and own_fn != F.key:
                return {("captured", p["r"])}
            if st == "param":
                if is_class_holder(d.get("t", "")) and not is_iter_or_ptr_type(d.get("t", "")):
                    # smart pointer / container passed by value or reference: pointee is shared
                    return {("param", d.get("pidx", 0))}
                return {("param", d.get("pidx", 0))}
            # local pointer / iterator / smart pointer: what was it initialised / assigned from?
            tbl = self.var_assignments(F, p["r"])
            out = set()
            srcs = list(tbl.get(("init", p["r"]), [])) + list(tbl.get(p["r"], []))
            for s in srcs:
                if d.get("ref"):
                    # reference to a pointer-like object: pointee of what it refers to
                    out |= self.resolve_pointee(F, s, depth + 1)
                else:
                    out |= self.resolve_pointee(F, s, depth + 1)
            for rng in tbl.get(("range", p["r"]), []):
                # loop variable over a container of pointers: pointee owned by / reachable from the container
                out |= self.resolve_pointee_of_elements(F, rng, depth + 1)
            return out or {("unknown", "pointer local %s without source" % d.get("n"))}
        if k == "MemberExpr":
            d = P.d(p["r"])
            ft = d.get("t", "")
            if d.get("k") == "Field":
                if d.get("ptr") or d.get("ref") and ft.rstrip("& ").endswith("*"):
                    return {("ptrfield", p["r"])}
                # smart pointer / container member: the pointee is owned by the member's object
                return self.resolve(F, p, depth + 1)
            if d.get("k") == "Var":
                return {("global", p["r"])}
            return {("unknown", "pointer member %s" % d.get("k"))}
        if k == "UnaryOperator":
            op = p.get("op")
            if op == "&":
                return self.resolve(F, p["c"][0], depth + 1)
            if op in ("++", "--"):
                return self.resolve_pointee(F, p["c"][0], depth + 1)
            if op == "*":
                # pointer to pointer
                return self.resolve_pointee(F, p["c"][0], depth + 1)
            return {("unknown", "pointer unary %s" % op)}
        if k in ("BinaryOperator",):
            op = p.get("op")
            if op in ("+", "-"):
                out = set()
                for c in p["c"]:
                    if is_iter_or_ptr_type(c.get("t", "")) or c.get("t", "").endswith("]"):
                        out |= self.resolve_pointee(F, c, depth + 1)
                return out or {("unknown", "pointer arithmetic")}
            if op == "=":
                return self.resolve_pointee(F, p["c"][1], depth + 1)
            if op == ",":
                return self.resolve_pointee(F, p["c"][1], depth + 1)
            return {("unknown", "pointer binary %s" % op)}
        if k == "ConditionalOperator":
            return self.resolve_pointee(F, p["c"][1], depth + 1) | self.resolve_pointee(F, p["c"][2], depth + 1)
        if k in ("CStyleCastExpr", "CXXStaticCastExpr", "CXXConstCastExpr", "CXXReinterpretCastExpr",
                 "CXXFunctionalCastExpr", "CXXDynamicCastExpr"):
            return self.resolve_pointee(F, p["c"][0], depth + 1)
        if k == "CXXNewExpr":
            return {FRESH}
        if k in ("CXXNullPtrLiteralExpr", "GNUNullExpr", "IntegerLiteral", "StringLiteral"):
            return {LOCAL}
        if k == "ArraySubscriptExpr":
            # element of an array of pointers
            return self.resolve_pointee_of_elements(F, p["c"][0], depth + 1)
        if k in ("CXXOperatorCallExpr", "CXXMemberCallExpr", "CallExpr"):
            return self.resolve_call_result(F, p, depth, pointee=True)
        if k in ("CXXConstructExpr", "CXXTemporaryObjectExpr"):
            # e.g. iterator / smart pointer copy-constructed from another
            out = set()
            for a in p.get("c", []):
                if a is not None:
                    out |= self.resolve_pointee(F, a, depth + 1) if is_holder_expr(a) else set()
            return out or {LOCAL}
        if k in ("CXXDefaultArgExpr", "CXXDefaultInitExpr"):
            return self.resolve_pointee(F, p["c"][0], depth + 1) if p.get("c") else {LOCAL}
        if k == "InitListExpr":
            return {LOCAL}
        if k == "LambdaExpr":
            return {LOCAL}
        return {("unknown", "pointer form %s" % k)}

    def resolve_pointee_of_elements(self, F, container, depth):
        """pointee of the elements of a container of (smart) pointers: owned by the container's object
        for smart pointers; raw pointers are unknown-lifetime"""
        t = container.get("t", "")
        if re.search(r"(unique_ptr|shared_ptr)<", t):
            return self.resolve(F, container, depth + 1)
        if "*" in t:
            roots = self.resolve(F, container, depth + 1)
            return {("unknown", "raw pointer element")} if roots == {LOCAL} else roots
        return self.resolve(F, container, depth + 1)

    def resolve_call_result(self, F, e, depth, pointee):
        """result of a call that is used as an lvalue (returns reference) or as a pointer-like value"""
        P = self.P
        k = e["k"]
        callee = e.get("callee")
        d = P.d(callee) if callee else {}
        name = d.get("n", "")
        qn = d.get("qn", "")
        t = e.get("t", "")
        returns_alias = bool(e.get("lv")) or is_iter_or_ptr_type(t) or (pointee and is_class_holder(t))
        if not returns_alias:
            return {LOCAL}
        if qn == "WorldBuilder::World::get_random_number_engine":
            return {RNG}
        # receiver and arguments
        recv, args = split_call(e, d)
        out = set()
        is_method = d.get("k") in ("CXXMethod", "CXXConversion") and not d.get("static")
        user_body = callee in P.funcs
        if is_method and recv is not None:
            rroots = self.resolve_receiver(F, e, recv, depth)
            if not user_body:
                if name in ACCESSORS or d.get("oo") in ("[]", "*", "->", "++", "--", "+=", "-=", "=", "+", "-"):
                    # smart pointers: operator-> / operator* / get() hand out the owned object
                    return rroots
                if d.get("oo") == "<<" or d.get("oo") == ">>":
                    return rroots
                return rroots | {("unknown", "library method %s returns an alias" % qn)}
            out |= rroots
        if user_body or d.get("user"):
            # user function returning a reference/pointer: may alias the receiver, any reference
            # parameter, or (for methods) storage reached from *this
            ra = self.returns_alias_of(callee)
            if ra is not None:
                res = set()
                for r in ra:
                    res |= self.translate_root(F, e, d, r, recv, args, depth)
                return res or {LOCAL}
        for i, a in enumerate(args):
            if a is None:
                continue
            at = a.get("t", "")
            if is_iter_or_ptr_type(at):
                out |= self.resolve_pointee(F, a, depth + 1)
            elif a.get("lv") and not is_scalar(at):
                out |= self.resolve(F, a, depth + 1)
        if not out:
            out = {LOCAL}
        return out

    def resolve_receiver(self, F, call, recv, depth):
        """roots of the object a member function is invoked on"""
        if call["k"] == "CXXMemberCallExpr":
            me = call["c"][0]
            if me.get("k") == "MemberExpr":
                base = me["c"][0] if me.get("c") else None
                if me.get("arrow"):
                    return self.resolve_pointee(F, base, depth + 1)
                return self.resolve(F, base, depth + 1)
            return {("unknown", "member call through %s" % me.get("k"))}
        return self.resolve(F, recv, depth + 1)

    def returns_alias_of(self, key):
        """for a user function returning a reference/pointer: the roots (in its own frame) of every
        returned expression"""
        if key in self._ret_alias:
            return self._ret_alias[key]
        F = self.P.funcs.get(key)
        if F is None:
            return None
        self._ret_alias[key] = set()  # recursion guard
        out = set()
        rt = F.decl.get("ret", "")
        ptr = is_iter_or_ptr_type(rt)
        for n in F.walk():
            if n.get("k") == "ReturnStmt" and n.get("c"):
                v = n["c"][0]
                out |= self.resolve_pointee(F, v) if ptr and not rt.endswith("&") else self.resolve(F, v)
        self._ret_alias[key] = out
        return out

    def translate_root(self, F, call, d, root, recv, args, depth):
        """map a root expressed in the callee's frame to roots in the caller's frame"""
        if root[0] == "param":
            i = root[1]
            if i < len(args) and args[i] is not None:
                a = args[i]
                pt = d.get("pt", [])
                mode = pt[i]["mode"] if i < len(pt) else "ref"
                if mode in ("ptr", "cptr") or (mode == "val" and is_iter_or_ptr_type(a.get("t", ""))):
                    return self.resolve_pointee(F, a, depth + 1)
                if mode == "val":
                    if is_class_holder(a.get("t", "")):
                        return self.resolve_pointee(F, a, depth + 1)
                    return {LOCAL}
                return self.resolve(F, a, depth + 1)
            return {LOCAL}
        if root[0] == "this":
            if call.get("ctor") is not None or call["k"] in ("CXXConstructExpr", "CXXTemporaryObjectExpr"):
                return {LOCAL}   # the object under construction; the caller decides where it lives
            if recv is None:
                return {("unknown", "this-effect without receiver")}
            return self.resolve_receiver(F, call, recv, depth)
        if root[0] == "local":
            return {LOCAL}
        return {root}

    # ------------------------------------------------------------------ summaries
    def compute(self, keys=None):
        P = self.P
        keys = set(keys) if keys is not None else set(P.funcs)
        keys = {k for k in keys if k in P.funcs}
        # local effects
        local = {}
        calls = {}
        for k in keys:
            local[k], calls[k] = self.local_effects(P.funcs[k])
        summary = {k: dict(v) for k, v in local.items()}
        changed = True
        rounds = 0
        while changed:
            changed = False
            rounds += 1
            if rounds > 200:
                raise AnalysisBroken("effect fixpoint does not converge")
            for k in keys:
                F = P.funcs[k]
                S = summary[k]
                for (node, d, targets, recv, args) in calls[k]:
                    for tkey in targets:
                        ts = summary.get(tkey)
                        if ts is None:
                            continue
                        for root, site in list(ts.items()):
                            if root == LOCAL or root == FRESH:
                                continue
                            td = P.d(tkey)
                            for r2 in self.translate_root(F, node, td, root, recv, args, 0):
                                if r2 in (LOCAL, FRESH):
                                    continue
                                if r2 not in S:
                                    S[r2] = (F, node, "via call to %s" % P.fname(tkey), site)
                                    changed = True
        self.summary.update(summary)
        return summary

    def write_roots(self, F, target, deref=False):
        return self.resolve_pointee(F, target) if deref else self.resolve(F, target)

    def local_effects(self, F):
        """direct writes of F (root -> site) and its call sites [(node, decl, targets, recv, args)]"""
        P = self.P
        eff = {}
        calls = []

        def add(roots, node, note):
            for r in roots:
                if r in (LOCAL, FRESH):
                    continue
                eff.setdefault(r, (F, node, note, None))

        nodes = list(F.walk())
        for ini in F.inits or []:
            for c in ini.get("c", []):
                nodes.extend(F.walk(c))
        for n in nodes:
            k = n.get("k")
            if k in ("BinaryOperator", "CompoundAssignOperator"):
                if n.get("op") in ("=", "+=", "-=", "*=", "/=", "%=", "|=", "&=", "^=", "<<=", ">>="):
                    add(self.resolve(F, n["c"][0]), n, "assignment")
            elif k == "UnaryOperator":
                if n.get("op") in ("++", "--"):
                    add(self.resolve(F, n["c"][0]), n, "increment/decrement")
            elif k == "CXXDeleteExpr":
                add(self.resolve_pointee(F, n["c"][0]), n, "delete")
            elif k == "DeclRefExpr":
                d = P.d(n["r"])
                if d.get("k") == "Var" and d.get("storage") in ("global", "static_member", "static_local"):
                    if not (d.get("const") or d.get("constexpr")):
                        eff.setdefault(("global", n["r"]), (F, n, "use of mutable variable with static storage", None))
            elif k == "VarDecl":
                d = P.d(n["r"])
                if d.get("storage") == "static_local" and not d.get("constexpr") and n.get("c"):
                    # a function-local static is initialised once, at the first call: if its initialiser reads
                    # anything that is not a compile-time constant, later calls (other worlds, other arguments)
                    # see the first call's value
                    dyn = None
                    for x in F.walk(n["c"][0]):
                        xk = x.get("k")
                        if xk == "CXXThisExpr":
                            dyn = "this"
                        elif xk == "DeclRefExpr":
                            dd = P.d(x["r"])
                            if dd.get("k") in ("Var", "ParmVar") and not (dd.get("constexpr") or (dd.get("const") and dd.get("storage") in ("global", "static_member"))):
                                dyn = dd.get("n")
                        elif xk in ("CallExpr", "CXXMemberCallExpr") and not d.get("constexpr"):
                            cq = P.d(x.get("callee")).get("qn", "")
                            if not (cq.startswith("std::numeric_limits") or EF_is_math(cq)):
                                dyn = dyn or ("call to " + cq)
                    if dyn:
                        eff.setdefault(("global", n["r"]), (F, n, "function-local static initialised from run-time state (%s) at the first call" % dyn, None))
            elif k == "MemberExpr":
                d = P.d(n["r"])
                if d.get("k") == "Var" and not (d.get("const") or d.get("constexpr")):
                    eff.setdefault(("global", n["r"]), (F, n, "use of mutable static member", None))
                if d.get("mutable"):
                    eff.setdefault(("unknown", "mutable field %s" % d.get("qn")), (F, n, "use of mutable field", None))
            elif k in ("CXXConstCastExpr",):
                eff.setdefault(("unknown", "const_cast"), (F, n, "const_cast", None))
            elif k == "CStyleCastExpr" or k == "CXXReinterpretCastExpr":
                fr, to = n.get("from", ""), n.get("t", "")
                if drops_const(fr, to):
                    eff.setdefault(("unknown", "cast drops const"), (F, n, "cast drops const: %s -> %s" % (fr, to), None))
            elif n.get("asm"):
                eff.setdefault(("unknown", "inline asm"), (F, n, "inline asm", None))
            if k in ("CXXOperatorCallExpr", "CXXMemberCallExpr", "CallExpr", "CXXConstructExpr", "CXXTemporaryObjectExpr"):
                callee = n.get("callee") or n.get("ctor")
                if callee is None:
                    if k == "CallExpr":
                        c0 = n["c"][0] if n.get("c") else {}
                        ck = c0.get("k")
                        if ck in ("CXXPseudoDestructorExpr",):
                            continue
                        eff.setdefault(("unknown", "indirect call"), (F, n, "call through %s (no static callee)" % ck, None))
                    continue
                d = P.d(callee)
                recv, args = split_call(n, d)
                targets = P.call_targets(n)
                has_body = [t for t in targets if t in P.funcs]
                if has_body or d.get("pure"):
                    calls.append((n, d, has_body, recv, args))
                    if len(has_body) == len(targets) or d.get("pure"):
                        # bodiless overriders (none expected) would be caught below
                        pass
                if callee not in P.funcs and not d.get("pure"):
                    self.library_call(F, n, d, recv, args, add)
            elif k == "LambdaExpr":
                lams = ([n["lam"]] if "lam" in n else []) + list(n.get("lams", []))
                calls.append((n, {}, [l for l in lams if l in P.funcs], None, []))
        return eff, calls

    def library_call(self, F, n, d, recv, args, add):
        """model of a callee without a body in user code, by signature"""
        P = self.P
        qn = d.get("qn", "")
        name = d.get("n", "")
        base_qn = re.sub(r"<.*>", "", qn)
        is_method = d.get("k") in ("CXXMethod", "CXXConversion", "CXXDestructor") and not d.get("static")
        implicit_user = d.get("user") or d.get("implicit") or d.get("defaulted")
        pt = d.get("pt", [])
        # receiver
        if is_method and recv is not None and not d.get("const"):
            oo = d.get("oo")
            if name in ACCESSORS or oo in ("[]", "*", "->"):
                pass
            else:
                add(self.resolve_receiver(F, n, recv, 0), n, "non-const member %s" % qn)
        if d.get("k") == "CXXConstructor" or n.get("k") in ("CXXConstructExpr", "CXXTemporaryObjectExpr"):
            is_ctor = True
        else:
            is_ctor = False
        forwarding = name in LIB_FORWARDING or (is_ctor and re.sub(r"<.*", "", name) in LIB_FORWARDING)
        # arguments
        for i, a in enumerate(args):
            if a is None:
                continue
            mode = pt[i]["mode"] if i < len(pt) else "val"
            at = a.get("t", "")
            if mode == "ref":
                if forwarding:
                    continue
                if is_ctor and n.get("copy"):
                    continue
                add(self.resolve(F, a), n, "argument %d bound to non-const reference of %s" % (i, qn))
            elif mode == "rref":
                if a.get("lv") or a.get("k") in ("CXXStaticCastExpr",) or (a.get("k") == "CallExpr" and P.d(a.get("callee")).get("qn") == "std::move"):
                    src = a
                    if a.get("k") == "CallExpr" and len(a.get("c", [])) > 1:
                        src = a["c"][1]
                    elif a.get("k") == "CXXStaticCastExpr":
                        src = a["c"][0]
                    if forwarding and src is a:
                        continue
                    add(self.resolve(F, src), n, "argument %d moved into %s" % (i, qn))
            elif mode == "ptr":
                if "(*)(" in at or (a.get("k") == "DeclRefExpr" and P.d(a.get("r")).get("k") in ("Function", "CXXMethod")):
                    continue   # pointer to function (std::endl and friends): nothing to write
                add(self.resolve_pointee(F, a), n, "argument %d passed as non-const pointer to %s" % (i, qn))
            elif mode == "val" and is_iter_or_ptr_type(at) and not pointee_const(at):
                if is_method or is_ctor:
                    # container.insert(pos, first, last), iterator copies ...: reads through iterators
                    continue
                if base_qn in LIB_READONLY or qn in LIB_READONLY:
                    continue
                w = LIB_WRITERS.get(base_qn)
                if w is None:
                    if d.get("user"):
                        continue
                    self.unknown_lib.setdefault(base_qn, (F, n))
                    add({("unknown", "library function %s takes a writable iterator/pointer" % base_qn)}, n, "unmodelled library call")
                    continue
                pos = [p if p >= 0 else len(args) + p - (1 if base_qn == "std::transform" else 0) for p in w]
                if base_qn == "std::transform":
                    # transform(first, last, out, op) or transform(f1, l1, f2, out, op): `out` is the
                    # argument before the callable
                    pos = [len(args) - 2]
                if i in pos:
                    add(self.resolve_pointee(F, a), n, "written through iterator argument %d of %s" % (i, base_qn))
        if not d.get("user") and not implicit_user and d.get("k") == "Function":
            if base_qn not in LIB_READONLY and base_qn not in LIB_WRITERS and not is_math(base_qn):
                # free function unknown to the tables: fine if it cannot write (all args by value/const)
                pass


def EF_is_math(qn):
    return is_math(qn) or qn.startswith("std::") and is_math(qn[5:])


def split_call(n, d):
    """(receiver expr or None, argument list aligned with the callee's parameters)"""
    k = n["k"]
    c = n.get("c", [])
    if k == "CXXMemberCallExpr":
        return (c[0] if c else None), c[1:]
    if k == "CXXOperatorCallExpr":
        if n.get("memop"):
            return (c[0] if c else None), c[1:]
        return None, c
    if k == "CallExpr":
        return None, c[1:]
    return None, c   # constructors


def is_scalar(t):
    t = t.replace("const ", "").strip()
    return t in ("double", "float", "int", "unsigned int", "long", "unsigned long", "bool", "char",
                 "unsigned char", "short", "unsigned short", "long long", "unsigned long long", "size_t")


def is_class_holder(t):
    return bool(re.search(r"(unique_ptr|shared_ptr|weak_ptr|reference_wrapper)<", t or ""))


def is_holder_expr(a):
    t = a.get("t", "")
    return is_iter_or_ptr_type(t) or is_class_holder(t)


def is_math(qn):
    return qn in ("sin", "cos", "tan", "asin", "acos", "atan", "atan2", "exp", "log", "log10", "pow", "sqrt",
                  "fabs", "floor", "ceil", "round", "erfc", "erf", "tanh", "sinh", "cosh", "fmod", "abs",
                  "cbrt", "hypot", "trunc", "lround")


def drops_const(fr, to):
    def pointee_is_const(t):
        t = t.strip()
        if not (t.endswith("*") or t.endswith("&")):
            return None
        core = t[:-1].strip()
        return core.startswith("const ") or core.endswith(" const")
    a, b = pointee_is_const(fr), pointee_is_const(to)
    return a is True and b is False
