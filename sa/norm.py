"""Expression rendering and normal forms (sympy terms of single expressions / straight-line blocks)."""
import re

import sympy as sp

ASSIGN_OPS = ("=", "+=", "-=", "*=", "/=", "%=", "|=", "&=", "^=", "<<=", ">>=")
CASTS = ("CStyleCastExpr", "CXXStaticCastExpr", "CXXFunctionalCastExpr", "CXXConstCastExpr",
         "CXXReinterpretCastExpr", "CXXDynamicCastExpr")


def render(P, n, depth=0, nocast=False, subst=None):
    """C-like rendering of an expression tree (for messages and structural comparison).
    subst (a Subst from naming_locals): see through naming locals and single-return local lambdas"""
    if n is None:
        return ""
    if depth > 40:
        return "…"
    k = n.get("k")
    c = n.get("c") or []
    r = lambda x: render(P, x, depth + 1, nocast, subst)
    if nocast and k in CASTS:
        return r(c[0])
    if k == "DeclRefExpr":
        if subst is not None:
            if n.get("r") in subst.bind:
                return subst.bind[n["r"]]
            if n.get("r") in subst.vals:
                return r(subst.vals[n["r"]])
        return n.get("n", "?")
    if subst is not None and k == "CXXOperatorCallExpr":
        lc = lambda_call(n, subst)
        if lc is not None:
            params, body, args = lc
            return "(" + render(P, body, depth + 1, nocast, subst.with_bind({pk: r(a) for pk, a in zip(params, args)})) + ")"
    if k == "MemberExpr":
        base = c[0] if c else None
        if base is None or (base.get("k") == "CXXThisExpr"):
            return ("this->" if base is not None and not base.get("implicit") else "") + n.get("n", "?")
        return r(base) + ("->" if n.get("arrow") else ".") + n.get("n", "?")
    if k == "CXXThisExpr":
        return "this"
    if k == "IntegerLiteral":
        return str(n.get("v"))
    if k == "FloatingLiteral":
        return str(n.get("vs", n.get("v")))
    if k == "CXXBoolLiteralExpr":
        return "true" if n.get("v") else "false"
    if k == "StringLiteral":
        return '"%s"' % n.get("v", "")
    if k == "CharacterLiteral":
        return "'%s'" % chr(n.get("v", 63))
    if k == "UnaryOperator":
        return (r(c[0]) + n["op"]) if n.get("post") else (n["op"] + r(c[0]))
    if k in ("BinaryOperator", "CompoundAssignOperator"):
        return "(%s %s %s)" % (r(c[0]), n["op"], r(c[1]))
    if k == "ConditionalOperator":
        return "(%s ? %s : %s)" % (r(c[0]), r(c[1]), r(c[2]))
    if k == "ArraySubscriptExpr":
        return "%s[%s]" % (r(c[0]), r(c[1]))
    if k == "CXXOperatorCallExpr":
        op = n.get("op")
        if op == "[]":
            return "%s[%s]" % (r(c[0]), r(c[1]))
        if op == "()":
            return "%s(%s)" % (r(c[0]), ", ".join(r(x) for x in c[1:]))
        if op in ("*", "->", "-", "!", "++", "--") and len(c) == 1:
            return "%s%s" % (op if op != "->" else "", r(c[0])) + ("->" if op == "->" else "")
        if len(c) == 2:
            return "(%s %s %s)" % (r(c[0]), op, r(c[1]))
        return "operator%s(%s)" % (op, ", ".join(r(x) for x in c))
    if k == "CXXMemberCallExpr":
        return "%s(%s)" % (r(c[0]), ", ".join(r(x) for x in c[1:]))
    if k == "CallExpr":
        d = P.d(n.get("callee")) if n.get("callee") else {}
        nm = d.get("qn") or (r(c[0]) if c else "?")
        return "%s(%s)" % (nm, ", ".join(r(x) for x in c[1:]))
    if k in ("CXXConstructExpr", "CXXTemporaryObjectExpr"):
        if len(c) == 1 and (n.get("copy") or n.get("elidable")):
            return r(c[0])
        t = short_type(n.get("t", ""))
        return "%s(%s)" % (t, ", ".join(r(x) for x in c))
    if k in CASTS:
        return "(%s)%s" % (short_type(n.get("t", "")), r(c[0]))
    if k == "InitListExpr":
        return "{%s}" % ", ".join(r(x) for x in c)
    if k in ("CXXDefaultArgExpr", "CXXDefaultInitExpr"):
        return r(c[0]) if c else "default"
    if k == "LambdaExpr":
        return "[lambda]"
    if k == "CXXNewExpr":
        return "new %s" % short_type(n.get("alloc", ""))
    if k == "CXXThrowExpr":
        return "throw"
    return "%s(%s)" % (k, ", ".join(r(x) for x in c))


def short_type(t):
    t = re.sub(r"\bstd::|\bWorldBuilder::", "", t)
    t = re.sub(r", allocator<[^<>]*(<[^<>]*>)?[^<>]*>", "", t)
    return t


def strip_casts(n):
    while n is not None and (n.get("k") in CASTS or n.get("k") in ("CXXDefaultArgExpr",)
                             or (n.get("k") in ("CXXConstructExpr", "CXXTemporaryObjectExpr")
                                 and len(n.get("c") or []) == 1 and (n.get("copy") or n.get("elidable")
                                                                     or "__normal_iterator" in n.get("t", "")))):
        n = n["c"][0]
    return n


_NAMING_CACHE = {}
PURE_ACCESSORS = ("operator[]", "at", "front", "back", "begin", "end", "size", "empty", "get_array", "get_surface_point", "get_depth_coordinate",
                  "get_coordinates", "get_nodes", "data", "first", "second")


class Subst:
    """what a naming local stands for: `vals` const scalars / aliases -> initialiser node; `lams` single-return local lambdas ->
    (parameter keys, returned expression); `bind` parameter key -> already rendered argument (during a beta reduction)"""

    def __init__(self, vals=None, lams=None, bind=None):
        self.vals = vals or {}
        self.lams = lams or {}
        self.bind = bind or {}

    def with_bind(self, extra):
        b = dict(self.bind)
        b.update(extra)
        return Subst(self.vals, self.lams, b)


def naming_locals(P, F):
    """locals that merely give a name to a value or to a small function: const / constexpr scalars, reference aliases with a
    side-effect-free initialiser, and local lambdas consisting of one return statement. Introducing or removing such a name
    changes no behaviour; comparers that opt in see through them."""
    ck = (id(P), F.key)
    if ck in _NAMING_CACHE:
        return _NAMING_CACHE[ck]
    vals, lams = {}, {}
    loopvars = set()
    for n in F.walk():
        if n.get("k") == "CXXForRangeStmt" and n.get("c") and n["c"][0] is not None:
            loopvars.add(n["c"][0].get("r"))
        if n.get("k") == "ForStmt" and n.get("c") and n["c"][0] is not None:
            for v in F.walk(n["c"][0]):
                if v.get("k") == "VarDecl":
                    loopvars.add(v.get("r"))
    for n in F.walk():
        if n.get("k") != "VarDecl" or not n.get("c") or n.get("r") in loopvars:
            continue
        d = P.d(n["r"])
        if d.get("storage") not in ("local",):
            continue
        init = n["c"][0]
        i0 = strip_casts(init)
        while i0 is not None and i0.get("k") in ("ExprWithCleanups", "MaterializeTemporaryExpr", "CXXBindTemporaryExpr", "CXXConstructExpr") and i0.get("c") and len([x for x in i0["c"] if x is not None]) == 1:
            i0 = strip_casts([x for x in i0["c"] if x is not None][0])
        if i0 is not None and i0.get("k") == "LambdaExpr":
            op = P.funcs.get(i0.get("lam"))
            if op is not None and op.body is not None:
                st = [x for x in (op.body.get("c") or []) if x is not None] if op.body.get("k") == "CompoundStmt" else [op.body]
                if len(st) == 1 and st[0].get("k") == "ReturnStmt" and st[0].get("c"):
                    lams[n["r"]] = (list(op.params), st[0]["c"][0])
            continue
        t = n.get("t", "")
        is_lref = t.rstrip().endswith("&") and not t.rstrip().endswith("&&")
        # a reference cannot be reseated: `T &x = e` names the object e denotes, const or not
        if not (t.startswith("const ") or d.get("const") or is_lref):
            continue
        bare = t.replace("const ", "").strip()
        if not (is_arith(bare) or bare.endswith("&") or bare in ("std::size_t", "size_t", "unsigned long", "std::string")):
            continue
        pure = True
        for y in F.walk(init):
            ky = y.get("k")
            if ky in ("BinaryOperator", "CompoundAssignOperator") and y.get("op") in ASSIGN_OPS:
                pure = False
            elif ky == "UnaryOperator" and y.get("op") in ("++", "--"):
                pure = False
            elif ky in ("CXXMemberCallExpr", "CXXOperatorCallExpr") and y.get("callee") and P.d(y["callee"]).get("k") == "CXXMethod" and not P.d(y["callee"]).get("const"):
                if P.d(y["callee"]).get("n") not in PURE_ACCESSORS:
                    pure = False
            elif ky in ("LambdaExpr", "CXXNewExpr", "CXXThrowExpr"):
                pure = False
        if pure:
            vals[n["r"]] = init
    out = Subst(vals, lams)
    _NAMING_CACHE[ck] = out
    return out


def helper_call(P, F, n):
    """(parameter keys, returned expression, argument nodes) if n calls a free function defined in the caller's own source
    file (a file-local helper) whose body is one return statement, possibly preceded by naming locals"""
    if n.get("k") != "CallExpr" or not n.get("callee"):
        return None
    G = P.funcs.get(n["callee"])
    if G is None or G.body is None or G is F or G.file != F.file:
        return None
    d = P.d(n["callee"])
    if d.get("k") not in ("Function",):
        return None
    st = [x for x in (G.body.get("c") or []) if x is not None] if G.body.get("k") == "CompoundStmt" else [G.body]
    nl = naming_locals(P, G)
    rest = [x for x in st if not (x.get("k") == "DeclStmt" and all(v.get("k") != "VarDecl" or v.get("r") in nl.vals or v.get("r") in nl.lams for v in x.get("c", [])))]
    if len(rest) != 1 or rest[0].get("k") != "ReturnStmt" or not rest[0].get("c"):
        return None
    args = [a for a in n["c"][1:] if a is None or a.get("k") != "CXXDefaultArgExpr"]
    if len(args) != len(G.params):
        return None
    return list(G.params), rest[0]["c"][0], args, G


def lambda_call(n, subst):
    """(parameter keys, body expression, argument nodes) if n calls a single-return local lambda known to subst"""
    if subst is None or n.get("k") != "CXXOperatorCallExpr" or n.get("op") != "()" or not n.get("c"):
        return None
    callee = strip_casts(n["c"][0])
    if callee is None or callee.get("k") != "DeclRefExpr" or callee.get("r") not in subst.lams:
        return None
    params, body = subst.lams[callee["r"]]
    args = [a for a in n["c"][1:] if a is None or a.get("k") != "CXXDefaultArgExpr"]
    if len(args) != len(params):
        return None
    return params, body, args


class Sym:
    """translate an expression tree to a sympy term.

    Symbols are named by resolved provenance: locals/params by `name@declkey` (or inlined through
    their unique initialiser when `inline` says so), fields by `this.field` / `<base>.field`,
    container elements by at(base, index)."""

    MATH = {
        "exp": sp.exp, "std::exp": sp.exp, "sqrt": sp.sqrt, "std::sqrt": sp.sqrt, "sin": sp.sin, "std::sin": sp.sin,
        "cos": sp.cos, "std::cos": sp.cos, "tan": sp.tan, "std::tan": sp.tan, "atan2": sp.atan2, "std::atan2": sp.atan2,
        "fabs": sp.Abs, "std::fabs": sp.Abs, "std::abs": sp.Abs, "abs": sp.Abs, "acos": sp.acos, "std::acos": sp.acos,
        "asin": sp.asin, "std::asin": sp.asin, "atan": sp.atan, "std::atan": sp.atan, "erfc": sp.erfc, "std::erfc": sp.erfc,
        "log": sp.log, "std::log": sp.log, "std::min": sp.Min, "std::max": sp.Max, "tanh": sp.tanh, "std::tanh": sp.tanh,
    }

    def __init__(self, P, F, inline_locals=True, env=None, name_only=False, hook=None, see_through=True, inline_consts=False, keep_aliases=False):
        self.inline_consts = inline_consts   # also replace const scalar locals by their initialiser when inline_locals is off
        self.keep_aliases = keep_aliases     # do not look through reference locals
        self.subst = naming_locals(P, F) if see_through else None   # aliases, named constants, single-return local lambdas
        self.hook = hook             # hook(node) -> sympy term or None (custom abstraction)
        self.P = P
        self.F = F
        self.inline_locals = inline_locals
        self.env = env or {}         # declkey -> sympy term (overrides)
        self.name_only = name_only   # symbols by plain name (for comparing siblings)
        self._assigned = None
        self._inits = None
        self.keys = {}               # sympy symbol -> decl key

    def _scan(self):
        if self._assigned is not None:
            return
        self._assigned = {}
        self._inits = {}
        for n in self.F.walk():
            k = n.get("k")
            if k == "VarDecl" and n.get("c"):
                self._inits[n["r"]] = n["c"][0]
            if k in ("BinaryOperator", "CompoundAssignOperator") and n.get("op") in ASSIGN_OPS:
                t = strip_casts(n["c"][0])
                if t.get("k") == "DeclRefExpr":
                    self._assigned[t["r"]] = self._assigned.get(t["r"], 0) + 1
            if k == "UnaryOperator" and n.get("op") in ("++", "--"):
                t = strip_casts(n["c"][0])
                if t.get("k") == "DeclRefExpr":
                    self._assigned[t["r"]] = self._assigned.get(t["r"], 0) + 1
            if k == "CXXOperatorCallExpr" and n.get("op") in ASSIGN_OPS + ("++", "--"):
                t = strip_casts(n["c"][0])
                if t.get("k") == "DeclRefExpr":
                    self._assigned[t["r"]] = self._assigned.get(t["r"], 0) + 1

    def symbol(self, name, key=None):
        if self.name_only or key is None:
            s = sp.Symbol(name)
        else:
            s = sp.Symbol("%s@%s" % (name, str(key).split("#")[-1][-12:]))
        if key is not None:
            self.keys[s] = key
        return s

    def __call__(self, n, depth=0):
        if n is None:
            return sp.Symbol("null")
        if depth > 80:
            return sp.Symbol("deep")
        P = self.P
        k = n.get("k")
        c = n.get("c") or []
        rec = lambda x: self(x, depth + 1)
        if self.hook is not None:
            h = self.hook(n)
            if h is not None:
                return h
        if k == "IntegerLiteral":
            return sp.Integer(n["v"])
        if k == "FloatingLiteral":
            try:
                return sp.Rational(str(n.get("vs", n["v"])))
            except Exception:
                return sp.Float(n["v"])
        if k == "CXXBoolLiteralExpr":
            return sp.true if n["v"] else sp.false
        if k == "DeclRefExpr":
            key = n["r"]
            if key in self.env:
                return self.env[key]
            d = P.d(key)
            if d.get("k") == "EnumConstant":
                return sp.Symbol(d.get("qn", n["n"]))
            if self.subst is not None and key in self.subst.vals and (self.inline_consts or (P.d(key).get("ref") and not self.keep_aliases)):
                return rec(self.subst.vals[key])
            if d.get("k") in ("Var", "ParmVar") and d.get("storage") == "local" and self.inline_locals:
                self._scan()
                if key in self._inits and not self._assigned.get(key) and not d.get("ref") == "XX":
                    init = self._inits[key]
                    if init.get("k") not in ("CXXConstructExpr", "CXXTemporaryObjectExpr", "InitListExpr", "LambdaExpr") or \
                            (len(init.get("c") or []) == 1 and (init.get("copy") or init.get("elidable"))):
                        return rec(init)
            if d.get("storage") in ("global", "static_member") or d.get("k") == "Var" and d.get("usr"):
                return sp.Symbol(d.get("qn", n["n"]))
            return self.symbol(n["n"], key)
        if k == "MemberExpr":
            base = c[0] if c else None
            d = P.d(n["r"])
            if base is None or base.get("k") == "CXXThisExpr":
                return sp.Symbol("this." + n["n"])
            return sp.Symbol(render(P, n))
        if k == "CXXThisExpr":
            return sp.Symbol("this")
        if k in CASTS or k in ("CXXDefaultArgExpr", "CXXDefaultInitExpr"):
            return rec(c[0])
        if k in ("CXXConstructExpr", "CXXTemporaryObjectExpr"):
            if len(c) == 1 and (n.get("copy") or n.get("elidable") or is_arith(n.get("t", ""))):
                return rec(c[0])
            return sp.Function(short_type(n.get("t", "obj")))(*[rec(x) for x in c])
        if k == "UnaryOperator":
            op = n["op"]
            if op == "-":
                return -rec(c[0])
            if op == "+":
                return rec(c[0])
            if op == "!":
                v = rec(c[0])
                return sp.Not(v) if isinstance(v, sp.logic.boolalg.Boolean) else sp.Function("lnot")(v)
            if op == "*":
                return sp.Function("deref")(rec(c[0]))
            if op == "&":
                return sp.Function("addr")(rec(c[0]))
            return sp.Function("u" + op)(rec(c[0]))
        if k in ("BinaryOperator", "CompoundAssignOperator"):
            op = n["op"]
            a, b = rec(c[0]), rec(c[1])
            try:
                if op == "+":
                    return a + b
                if op == "-":
                    return a - b
                if op == "*":
                    return a * b
                if op == "/":
                    return a / b
                if op == "<":
                    return sp.Lt(a, b, evaluate=False) if not (a.is_number and b.is_number) else sp.Lt(a, b)
                if op == "<=":
                    return sp.Le(a, b, evaluate=False) if not (a.is_number and b.is_number) else sp.Le(a, b)
                if op == ">":
                    return sp.Gt(a, b, evaluate=False) if not (a.is_number and b.is_number) else sp.Gt(a, b)
                if op == ">=":
                    return sp.Ge(a, b, evaluate=False) if not (a.is_number and b.is_number) else sp.Ge(a, b)
            except TypeError:
                pass
            return sp.Function("op" + op)(a, b)
        if k == "ConditionalOperator":
            return sp.Function("ite")(rec(c[0]), rec(c[1]), rec(c[2]))
        if k == "ArraySubscriptExpr":
            return sp.Function("at")(rec(c[0]), rec(c[1]))
        if k == "CXXOperatorCallExpr":
            op = n.get("op")
            if op == "[]":
                return sp.Function("at")(rec(c[0]), rec(c[1]))
            lc = lambda_call(n, self.subst)
            if lc is not None:
                params, body, largs = lc
                saved = {pk: self.env.get(pk) for pk in params}
                vals = [rec(a) for a in largs]
                for pk, v in zip(params, vals):
                    self.env[pk] = v
                try:
                    return rec(body)
                finally:
                    for pk, v in saved.items():
                        if v is None:
                            self.env.pop(pk, None)
                        else:
                            self.env[pk] = v
            args = [rec(x) for x in c]
            if len(args) == 2 and op in ("+", "-", "*", "/"):
                a, b = args
                # Point arithmetic etc.: keep symbolic but algebraic
                return {"+": a + b, "-": a - b, "*": a * b, "/": a / b}[op]
            if len(args) == 1 and op == "-":
                return -args[0]
            if op == "*" and len(args) == 1:
                return sp.Function("deref")(args[0])
            return sp.Function("op" + str(op))(*args)
        if k == "CXXMemberCallExpr":
            me = c[0]
            name = me.get("n", "?")
            base = me.get("c", [None])[0] if me.get("k") == "MemberExpr" else None
            args = [rec(x) for x in c[1:]]
            if name in ("at",) and len(args) == 1 and base is not None:
                return sp.Function("at")(rec(base), args[0])
            if name == "size" and base is not None:
                return sp.Function("size")(rec(base))
            b = rec(base) if base is not None else sp.Symbol("?")
            return sp.Function("m_" + name)(b, *args)
        if k == "CallExpr":
            d = P.d(n.get("callee")) if n.get("callee") else {}
            qn = d.get("qn", "?")
            hc = helper_call(P, self.F, n) if self.subst is not None else None
            if hc is not None and depth < 60:
                # a single-return helper of the same source file stands for its body with the arguments substituted
                params, body, hargs, G = hc
                vals = [rec(a) for a in hargs]
                inner = Sym(P, G, inline_locals=True, env=dict(zip(params, vals)), name_only=self.name_only, hook=self.hook)
                return inner(body, depth + 1)
            args = [rec(x) for x in c[1:]]
            if qn in self.MATH:
                try:
                    return self.MATH[qn](*args)
                except Exception:
                    pass
            if qn in ("pow", "std::pow") and len(args) == 2:
                return args[0] ** args[1]
            if qn == "std::move" and len(args) == 1:
                return args[0]
            return sp.Function(qn)(*args)
        if k == "InitListExpr":
            return sp.Function("list")(*[rec(x) for x in c])
        if k == "StringLiteral":
            return sp.Symbol('"%s"' % n.get("v", ""))
        return sp.Function(k)(*[rec(x) for x in c if x is not None])


def is_arith(t):
    t = t.replace("const ", "").strip()
    return t in ("double", "float", "int", "unsigned int", "long", "unsigned long", "bool", "size_t",
                 "unsigned long long", "long long", "short", "unsigned short", "char", "unsigned char")


def equal(a, b):
    try:
        d = sp.simplify(sp.expand(a - b))
        return d == 0
    except Exception:
        return a == b


def affine_in(expr, var):
    """(a, b) with expr == a*var + b and a, b free of var; None if not affine"""
    try:
        e = sp.expand(expr)
        p = sp.Poly(e, var)
    except Exception:
        return None
    if p.degree() > 1:
        return None
    a = p.coeff_monomial(var) if p.degree() == 1 else sp.Integer(0)
    b = p.coeff_monomial(1)
    if a.has(var) or b.has(var):
        return None
    return a, b
