"""Translation units, flags and fact extraction for the current /repo tree.

Nothing here depends on /repo/_build: the TU list is globbed from the tree,
config.h is generated from config.h.in + VERSION, and the flags are the ones of
the real build (CMakeLists.txt: -std=c++14, WB_WITH_ZLIB, VTU11_ENABLE_ZLIB,
WB_USE_FP_EXCEPTIONS).  Facts are cached by a hash of every input file, so a
changed tree is always re-extracted.
"""
import glob
import hashlib
import json
import os
import re
import subprocess
import sys
import time
from concurrent.futures import ThreadPoolExecutor

VERIF = os.path.dirname(os.path.dirname(os.path.abspath(__file__)))
REPO = os.environ.get("WB_REPO", "/repo")
CACHE = os.environ.get("WB_CACHE") or os.path.join(VERIF, ".cache")
WBAST = os.path.join(VERIF, "bin", "wbast")


class AnalysisBroken(Exception):
    """exit code 2: the analysis itself cannot give a verdict"""


def _sha(paths, extra=b""):
    h = hashlib.sha256()
    for p in sorted(paths):
        h.update(p.encode())
        with open(p, "rb") as f:
            h.update(hashlib.sha256(f.read()).digest())
    h.update(extra)
    return h.hexdigest()[:24]


def input_files():
    files = []
    for root in ("source", "include"):
        for dp, dn, fn in os.walk(os.path.join(REPO, root)):
            for f in fn:
                if f.endswith((".cc", ".h", ".hpp", ".in", ".cxx", ".inl", ".c", ".cpp")):
                    files.append(os.path.join(dp, f))
    for f in ("VERSION", "CMakeLists.txt"):
        files.append(os.path.join(REPO, f))
    return files


def tree_hash():
    extra = b""
    for p in (WBAST, os.path.join(VERIF, "tool", "wbast.cc")):
        if os.path.exists(p):
            with open(p, "rb") as f:
                extra += hashlib.sha256(f.read()).digest()
    return _sha(input_files(), extra + REPO.encode() + b"prefixes:v3")


def unity_excludes():
    """files CMake keeps out of the unity TU (parsed, not assumed)"""
    txt = open(os.path.join(REPO, "CMakeLists.txt")).read()
    m = re.search(r"SET\(UNITY_DISABLE_FILES\s*\"([^\"]*)\"", txt)
    if not m:
        return []
    return [x for x in m.group(1).split(";") if x]


def library_sources():
    srcs = sorted(glob.glob(os.path.join(REPO, "source/world_builder/**/*.cc"), recursive=True))
    if len(srcs) < 100:
        raise AnalysisBroken("library source glob found only %d files" % len(srcs))
    return srcs


def gen_dir(h):
    d = os.path.join(CACHE, h)
    os.makedirs(os.path.join(d, "gen", "include", "world_builder"), exist_ok=True)
    return d


def write_config_h(d):
    src = open(os.path.join(REPO, "include/world_builder/config.h.in")).read()
    ver = open(os.path.join(REPO, "VERSION")).read().strip()
    m = re.match(r"(\d+)\.(\d+)\.(\d+)(?:-(\w+))?", ver)
    if not m:
        raise AnalysisBroken("cannot parse VERSION %r" % ver)
    sub = {
        "WORLD_BUILDER_VERSION_MAJOR": m.group(1),
        "WORLD_BUILDER_VERSION_MINOR": m.group(2),
        "WORLD_BUILDER_VERSION_PATCH": m.group(3),
        "WORLD_BUILDER_VERSION_LABEL": m.group(4) or "",
        "GIT_SHA1": "verif", "GIT_BRANCH": "verif", "GIT_DATE": "verif",
        "GIT_COMMIT_SUBJECT": "verif", "WORLD_BUILDER_SOURCE_DIR": REPO,
    }
    out = re.sub(r"@(\w+)@", lambda mm: sub.get(mm.group(1), ""), src)
    with open(os.path.join(d, "gen", "include", "world_builder", "config.h"), "w") as f:
        f.write(out)


def flags(d, view):
    fl = ["-std=c++14", "-DVTU11_ENABLE_ZLIB", "-DWB_USE_FP_EXCEPTIONS", "-DWB_WITH_ZLIB",
          "-I" + os.path.join(REPO, "include"), "-I" + os.path.join(REPO, "tests"),
          "-I" + os.path.join(d, "gen", "include"), "-w", "-ferror-limit=5"]
    if os.environ.get("WB_VERIF_HOOKS", "1") == "1":
        fl.append("-DWB_VERIF")
    fl.append("-DNDEBUG" if view == "release" else "-UNDEBUG")
    return fl


def tus(d):
    """name -> main file.  lib = every library source in one TU (unity, like the real
    build; the two CMake excludes are appended to the same TU when that parses, see extract)."""
    excl = set(os.path.join(REPO, e) for e in unity_excludes())
    srcs = library_sources()
    unity = os.path.join(d, "gen", "lib_unity.cc")
    with open(unity, "w") as f:
        for s in srcs:
            if s in excl:
                continue
            f.write('#include "%s"\n' % s)
    out = {"lib": unity}
    for e in sorted(excl):
        if not os.path.exists(e):
            raise AnalysisBroken("CMake unity exclude %s does not exist" % e)
        out["lib_" + os.path.basename(e)[:-3]] = e
    for app in ("gwb-dat", "gwb-grid"):
        p = os.path.join(REPO, "source", app, "main.cc")
        if not os.path.exists(p):
            raise AnalysisBroken("application source %s missing" % p)
        out[app] = p
    return out


def _run_one(args):
    name, main, out, fl = args
    t0 = time.time()
    prefixes = ",".join([os.path.join(REPO, "source"), os.path.join(REPO, "include/world_builder"), os.path.join(REPO, "include/vtu11"), os.path.join(REPO, "include/glm")])
    cmd = [WBAST, out, prefixes, main, "--"] + fl
    p = subprocess.run(cmd, stdout=subprocess.PIPE, stderr=subprocess.PIPE, text=True)
    return name, p.returncode, p.stderr[-4000:], time.time() - t0


def extract(views=("release",), verbose=False):
    """returns {(tu, view): path to facts json}; raises AnalysisBroken on parse errors"""
    if not os.path.exists(WBAST):
        raise AnalysisBroken("extractor %s not built (run setup_cmd)" % WBAST)
    h = tree_hash()
    d = gen_dir(h)
    write_config_h(d)
    t = tus(d)
    jobs = []
    res = {}
    for view in views:
        for name, main in t.items():
            out = os.path.join(d, "%s.%s.json" % (name, view))
            res[(name, view)] = out
            if not (os.path.exists(out) and os.path.exists(out + ".ok")):
                jobs.append((name + "." + view, main, out, flags(d, view)))
    if jobs:
        with ThreadPoolExecutor(max_workers=min(16, len(jobs))) as ex:
            for name, rc, err, dt in ex.map(_run_one, jobs):
                if verbose:
                    print("  extracted %-28s rc=%d %.1fs" % (name, rc, dt), file=sys.stderr)
                if rc != 0:
                    raise AnalysisBroken("tree does not parse (%s):\n%s" % (name, err))
        for name, main, out, fl in jobs:
            open(out + ".ok", "w").write("ok")
    if not os.environ.get("WB_CACHE"):
        _prune_cache(keep=h)
    return res, h


def _prune_cache(keep, max_entries=4):
    try:
        ents = [e for e in os.listdir(CACHE) if os.path.isdir(os.path.join(CACHE, e))]
    except FileNotFoundError:
        return
    if len(ents) <= max_entries:
        return
    ents.sort(key=lambda e: os.path.getmtime(os.path.join(CACHE, e)))
    import shutil
    for e in ents[:-max_entries]:
        if e != keep:
            shutil.rmtree(os.path.join(CACHE, e), ignore_errors=True)


if __name__ == "__main__":
    r, h = extract(views=("release", "debug") if "--both" in sys.argv else ("release",), verbose=True)
    for k, v in r.items():
        print(k, v, os.path.getsize(v))
