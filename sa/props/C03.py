"""C03 — outside every feature the background state is returned."""
from .. import facts, run
from ..rules import expr, guard, layout, pure, kernels, dep
from ..tu import AnalysisBroken


def main(tier):
    rep = run.Report("C03", tier)
    P = facts.load("release")
    rep.analysed["tree_hash"] = P.tree_hash
    expr.background_fill(P, rep)
    expr.key_provenance(P, rep, "WorldBuilder::World", expr.WORLD_KEYS, "WorldBuilder::World::parse_entries")
    expr.key_provenance(P, rep, "WorldBuilder::GravityModel::Uniform", {"gravity_magnitude": "magnitude"},
                        "WorldBuilder::GravityModel::Uniform::parse_entries", rule="EXPR.keys.gravity")
    # Uniform::gravity_norm returns the parsed magnitude
    G = P.func("WorldBuilder::GravityModel::Uniform::gravity_norm")
    rets = [n for n in G.walk() if n.get("k") == "ReturnStmt" and n.get("c")]
    from ..astq import sc, is_this_field
    if len(rets) == 1 and is_this_field(P, rets[0]["c"][0], "gravity_magnitude"):
        rep.ok("EXPR.keys.gravity", "Uniform::gravity_norm returns gravity_magnitude", G.loc, G.qn)
    else:
        rep.violation("EXPR.keys.gravity", "Uniform::gravity_norm", G.loc, G.qn, "", "does not return the parsed magnitude", key="EXPR.keys.gravity|norm",
                      witness="gravity model with magnitude 5")
    # nothing else touches the blocks when no feature covers the point
    guard.writes_under_extent(P, rep)
    # forced surface temperature independent of batching; slot not handed to the features
    tables, outv, counter = layout.width_tables(P, rep)
    layout.fill_loop(P, rep, outv)
    F3 = P.func("WorldBuilder::World::properties", ptypes=["array<double, 3>"])
    layout.xdep(P, rep, [(F3, F3.params[2])])
    roots = pure.query_roots(P)
    # the answer does not depend on what was queried before (no cache that outlives a query: a necessary condition for a
    # statement about 'all worlds and all points', which includes a second world in the same process)
    pure.run(P, rep, pure.query_roots(P))
    # what lies outside a feature is decided by its extent, and the extent by the depth values listed in the file
    rep.attempt(kernels.merge_structure, P, rep)
    rep.attempt(dep.surface_pairing, P, rep)
    # whether a point lies outside a slab or fault is decided by their membership tests: the slab/fault siblings must agree and
    # every interpolated bound (thickness, top truncation, length) must be the convex combination it is documented to be
    from ..rules import segments as _segments
    rep.attempt(_segments.line_siblings, P, rep)
    rep.attempt(_segments.interpolation_shape, P, rep)
    rep.explanation = ("Algebraic form of every initial block of the result, provenance of the global constants (each from the "
                       "entry of its own name, written nowhere else), all feature writes control-dependent on the feature's extent "
                       "test, forced surface temperature emitted under exactly its condition, independent of batching, and "
                       "never handed to the features.")
    return rep.finish()
