"""C09 — the 2D cross-section interface equals the 3D interface along the section."""
from .. import facts, run
from ..rules import expr, fwd, layout, pure


def main(tier):
    rep = run.Report("C09", tier)
    P = facts.load("release")
    rep.analysed["tree_hash"] = P.tree_hash
    expr.cross_section(P, rep)
    tables, outv, counter = layout.width_tables(P, rep)
    layout.wrapper2d(P, rep, counter)
    fwd.convenience_members(P, rep)
    # the 2D entry points keep no state between calls (a cached coordinate system or cross section would tie one world's
    # answers to another world queried earlier)
    roots2d = [f for f in pure.query_roots(P) if f.params and 'array<double, 2>' in P.d(f.params[0]).get('t', '')]
    rep.floor('PURE.roots2d', len(roots2d), 5, '2D entry points')
    pure.run(P, rep, roots2d)
    pure.no_swallow(P, rep, roots2d + [f for f in pure.query_roots(P) if f.name.endswith('_2d')])
    rep.assumptions.append("equality of the 2D and 3D answers beyond 'same callee, mapped arguments, projected velocity' is not decided")
    rep.explanation = ("Algebraic form of the cross-section direction and of the 2D->3D point map in both coordinate systems, "
                       "release-active refusal as first statement, width-table agreement of the 2D slot walker, velocity "
                       "projection formula evaluated in statement order, forwarding of the single-property 2D members.")
    return rep.finish()
