"""C09 — the 2D cross-section interface equals the 3D interface along the section."""
from .. import facts, run
from ..rules import expr, fwd, layout


def main(tier):
    rep = run.Report("C09", tier)
    P = facts.load("release")
    rep.analysed["tree_hash"] = P.tree_hash
    expr.cross_section(P, rep)
    tables, outv, counter = layout.width_tables(P, rep)
    layout.wrapper2d(P, rep, counter)
    fwd.convenience_members(P, rep)
    rep.assumptions.append("equality of the 2D and 3D answers beyond 'same callee, mapped arguments, projected velocity' is not decided")
    rep.explanation = ("Algebraic form of the cross-section direction and of the 2D->3D point map in both coordinate systems, "
                       "release-active refusal as first statement, width-table agreement of the 2D slot walker, velocity "
                       "projection formula evaluated in statement order, forwarding of the single-property 2D members.")
    return rep.finish()
