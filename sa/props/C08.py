"""C08 — invariance under rigid motions: only the longitude-alias clause (L vs L +- 360 degrees) is decided."""
from .. import facts, run
from ..rules import dep, footprint, kernels, shift, pure


def main(tier):
    rep = run.Report("C08", tier)
    P = facts.load("release")
    rep.analysed["tree_hash"] = P.tree_hash
    footprint.alias_wrappers(P, rep)
    dep.alias_callers(P, rep)
    footprint.alias_sites(P, rep)
    rep.attempt(footprint.alias_shift_shape, P, rep)
    footprint.ridge_alias_twins(P, rep)
    footprint.bezier_periodic_start(P, rep)
    kernels.point_kernels(P, rep)
    rep.attempt(shift.translation_invariance, P, rep)
    rep.attempt(dep.bbox_extremes, P, rep)       # the culling box spans the trench in every orientation (else answers depend on it)
    rep.attempt(footprint.side_of_line_twins, P, rep)   # ridge selection by the side of the transform fault: orientation independent
    rep.assumptions.append("translation / rotation invariance in Cartesian worlds and longitude-offset invariance are statements about real "
                           "arithmetic in every kernel: decided only for the distance kernels of Point (closed forms that are invariant by inspection of "
                           "the formula) and, by a shift-degree abstract interpretation, for the polygon test, the signed polygon distance and the "
                           "ellipse fraction (translation only); otherwise only the 'L vs L+-360' clause is claimed")
    # the answer does not depend on what was queried before (no cache that outlives a query: a necessary condition for a
    # statement about 'all worlds and all points', which includes a second world in the same process)
    pure.run(P, rep, pure.query_roots(P))
    rep.explanation = ("Longitude-alias discipline: shape and exclusive use of the alias wrappers, presence of the 2*pi alias in every "
                       "function of the frozen list of alias-aware sites, the alias longitude L+-2*pi per half-range, the wrappers as truth "
                       "tables over their paths, symmetry of the point/alias twin blocks in the ridge-distance routine, and translation "
                       "invariance of the Cartesian polygon / signed-distance / ellipse kernels by shift-degree abstract interpretation.")
    return rep.finish()
