"""C20 — cooling models stay inside their physical envelope: only the clauses decidable by calculus on the
closed forms extracted from the code (boundary attainment; half-space envelope and monotonicity)."""
from .. import facts, run
from ..rules import dep, models, pure


def main(tier):
    rep = run.Report("C20", tier)
    P = facts.load("release")
    rep.analysed["tree_hash"] = P.tree_hash
    extracted, syms = models.cooling_formulas(P, rep)
    rep.floor("EXPR.cooling.extracted", len(extracted), 3, "closed forms extracted (half space, plate, constant-age plate)")
    models.envelope(P, rep, extracted, syms)
    rep.attempt(models.gaussian_top_side, P, rep)             # mass-conserving slab: the side above the coldest surface
    rep.attempt(models.conductive_bottom_side, P, rep)        # ... and the side below it, for both reference models
    rep.attempt(models.analytic_profile_guard, P, rep)        # ... used only when its cold end member is below its warm one
    rep.attempt(models.parameter_single_source, P, rep)      # one value per physical parameter inside a model's formulas
    dep.surface_pairing(P, rep)  # the model's own top and bottom are the local depths: features hand over, and models use, the local bounds
    models.formulas(P, rep)      # linear models: T_top at the clipped top, T_bottom at the clipped bottom follow from the verified form
    rep.assumptions.append("bounds and monotonicity of the 100-term plate-model series, the mass-conserving slab construction and the slab plate "
                           "model are NOT decided (real analysis of transcendental expressions of run-time quantities); only the listed clauses "
                           "are claimed")
    # the answer does not depend on what was queried before (no cache that outlives a query: a necessary condition for a
    # statement about 'all worlds and all points', which includes a second world in the same process)
    pure.run(P, rep, pure.query_roots(P))
    rep.explanation = ("The closed forms of the half-space, plate and constant-age plate models are extracted from the code (loops as one "
                       "symbolic iteration) and verified against the published formulas; on the extracted forms computer algebra decides "
                       "boundary attainment (substitution / limit) and, for the half-space model, the convex-combination envelope and the "
                       "signs of the depth and age derivatives. Linear models attain their boundary temperatures by their verified form.")
    return rep.finish()
