"""C19 — geometric kernels agree with their definitions: three algebraic/structural clauses only."""
from .. import facts, run
from ..rules import kernels, footprint, loop, pure


def main(tier):
    rep = run.Report("C19", tier)
    P = facts.load("release")
    rep.analysed["tree_hash"] = P.tree_hash
    kernels.bezier_algebra(P, rep)
    kernels.bezier_record(P, rep)
    rep.attempt(kernels.newton_objective, P, rep)     # what the search minimises is the distance to the point it reports
    kernels.acos_clamp(P, rep)
    from ..rules import frame as _frame
    rep.attempt(_frame.great_circle, P, rep)     # the value under the clamp is the cosine of the central angle
    kernels.kd_structure(P, rep)
    kernels.conversion_roundtrip(P, rep)
    rep.attempt(_frame.conversion_paths, P, rep)     # ... on every path, in all octants and near the poles
    kernels.point_kernels(P, rep)
    footprint.polygon_boundary(P, rep)
    rep.assumptions.append("nearest-ness of the kd search result, polygon exactness, convergence of the Newton iteration (that it ends at the global minimum of its objective) are NOT decided (numeric); the conversion round trip is decided "
                           "as an algebraic identity only (no rounding)")
    # the answer does not depend on what was queried before (no cache that outlives a query: a necessary condition for a
    # statement about 'all worlds and all points', which includes a second world in the same process)
    pure.run(P, rep, pure.query_roots(P))
    rep.explanation = ("Computer-algebra identity between the closest-point search's cubic coefficients and the Bernstein form evaluated by "
                       "operator(), the objective of that search as the (squared / haversine) distance to the reported point with its two derivatives, interval check of the acos clamp, structure of the kd-tree search (near child unconditional, far child "
                       "pruned on the split-axis difference, same mid in build and search), Cartesian<->spherical round trip on every path, "
                       "great-circle cosine, closed forms of the Point kernels, boundary and winding rules of the polygon test.")
    return rep.finish()
