"""C11 — depth surfaces given at points are honoured, affine-exact and bounded (structural parts)."""
from .. import facts, run
from ..rules import dep, kernels, pure


def main(tier):
    rep = run.Report("C11", tier)
    P = facts.load("release")
    rep.analysed["tree_hash"] = P.tree_hash
    kernels.approx_reflexive(P, rep)
    kernels.merge_structure(P, rep)
    kernels.barycentric(P, rep)
    dep.surface_fallback(P, rep)
    rep.attempt(dep.triangle_pairing, P, rep)      # vertices, coefficients and reported index of one triangle
    dep.surface_pairing(P, rep)    # consumers: the depth listed at a point reaches the model that uses it
    rep.attempt(dep.depth_defaults, P, rep)      # unlisted polygon corners get the documented default
    rep.assumptions.append("the Delaunay triangulation (third-party delaunator) is NOT decided; of the in-triangle tolerances only their form (slack proportional to machine epsilon) is")
    # the answer does not depend on what was queried before (no cache that outlives a query: a necessary condition for a
    # statement about 'all worlds and all points', which includes a second world in the same process)
    pure.run(P, rep, pure.query_roots(P))
    rep.explanation = ("Reflexivity of the same-point test over the sign domain, structure of the corner/user point merge, symbolic proof that "
                       "the in-triangle interpolant is the affine function through the triangle's three vertices (with the constructor's "
                       "precomputed coefficients), vertex pairing, min/max over all nodal values, full-scan fallback.")
    return rep.finish()
