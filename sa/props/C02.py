"""C02 — features paint in file order; only covering features matter; operations compose."""
from .. import astq, facts, norm, run
from ..astq import sc
from ..rules import guard, models, pure, sib


def fold_order(P, rep, rule="FOLD.order"):
    rep.rule(rule, "World::properties applies the features by one forward range-for over parameters.features, handing every feature the same "
                   "output vector and offsets; parameters.features is filled in file order (index 0..n-1 of the JSON array) by "
                   "get_unique_pointers and is not reordered anywhere")
    F3 = P.func("WorldBuilder::World::properties", ptypes=["array<double, 3>"])
    loops = [n for n in F3.walk() if n.get("k") == "CXXForRangeStmt" and norm.render(P, n["c"][1]).endswith("parameters.features")]
    other = [n for n in F3.walk() if n.get("k") in ("ForStmt", "WhileStmt") and "features" in norm.render(P, n["c"][1] if n["k"] == "ForStmt" else n["c"][0])]
    if len(loops) != 1 or other:
        rep.violation(rule, "World::properties has %d range-for loops over parameters.features (+%d other loops)" % (len(loops), len(other)), F3.loc, F3.qn, "",
                      "features are not applied exactly once each in file order", key=rule + "|loop", witness="two overlapping features")
    else:
        L = loops[0]
        calls = [x for x in F3.walk(L["c"][2]) if x.get("k") == "CXXMemberCallExpr" and P.d(x.get("callee")).get("qn") == "WorldBuilder::Features::Interface::properties"]
        ok = len(calls) == 1
        if ok:
            c = calls[0]
            recv = sc(c["c"][0]["c"][0])
            args = [norm.render(P, a) for a in c["c"][1:]]
            ok = astq.is_ref_to(recv, L["c"][0]["r"]) or norm.render(P, recv).startswith(L["c"][0]["n"])
            # roles, not spellings: the returned output buffer, and two locals of the evaluator built before the loop
            # (the slot table and the request list handed to the features)
            an = [sc(a) for a in c["c"][1:]]
            inloop = {v["r"] for v in F3.walk(L) if v.get("k") == "VarDecl"}

            def is_outer_local(a):
                return a is not None and a.get("k") == "DeclRefExpr" and P.d(a["r"]).get("storage") == "local" and a["r"] not in F3.params and a["r"] not in inloop
            returned = {sc(r_["c"][0]).get("r") for r_ in F3.walk() if r_.get("k") == "ReturnStmt" and r_.get("c") and sc(r_["c"][0]) is not None}
            ok = ok and len(an) >= 4 and is_outer_local(an[-1]) and an[-1]["r"] in returned \
                and is_outer_local(an[-2]) and is_outer_local(an[3]) and len({an[-1]["r"], an[-2]["r"], an[3]["r"]}) == 3
            # nothing conditional around the call
            ok = ok and not [a for a in F3.ancestors(c) if a.get("k") in ("IfStmt", "SwitchStmt") and any(y is a for y in F3.walk(L))]
        if ok:
            rep.ok(rule, "one unconditional call it->properties(..., properties_local, ..., entry_in_output, output) per feature, forward range-for", F3.nloc(L), F3.qn)
        else:
            rep.violation(rule, "feature loop body", F3.nloc(L), F3.qn, norm.render(P, L["c"][2])[:140], "a feature is skipped, applied conditionally or given other buffers",
                          key=rule + "|body", witness="two overlapping features")
    # who writes Parameters::features
    writers = []
    for F in P.funcs.values():
        if not F.tu.startswith("lib"):
            continue
        for n in F.walk():
            if n.get("k") == "MemberExpr" and P.d(n.get("r")).get("qn") == "WorldBuilder::Parameters::features":
                par = F.parent.get(n["i"])
                txt = norm.render(P, par)[:100] if par is not None else ""
                if par is not None and par.get("k") == "MemberExpr" and par.get("n") in ("size", "begin", "end", "operator[]", "empty"):
                    continue
                if par is not None and par.get("k") == "CXXOperatorCallExpr" and par.get("op") == "[]":
                    continue
                if par is not None and (par.get("k") == "CXXForRangeStmt" or (par.get("k") == "VarDecl" and par.get("n", "").startswith("__range"))):
                    continue
                if par is not None and par.get("k") == "CXXMemberCallExpr" and P.d(par.get("callee")).get("qn") == "WorldBuilder::Parameters::get_unique_pointers":
                    txt = "get_unique_pointers(..., features)"
                writers.append((F, n, txt))
    okw = True
    for F, n, txt in writers:
        if F.qn == "WorldBuilder::World::parse_entries" and "get_unique_pointers" in txt:
            continue
        okw = False
        rep.violation(rule, "%s touches parameters.features: %s" % (F.qn, txt), F.nloc(n), F.qn, txt, "the feature list may be reordered or modified after parsing",
                      key="%s|writer|%s" % (rule, F.qn), witness="file with two overlapping features in both orders")
    G = [f for f in P.funcs_named("WorldBuilder::Parameters::get_unique_pointers") if "Features::Interface" in (f.targs or "")]
    if len(G) != 1:
        rep.unknown(rule, "get_unique_pointers<Features::Interface> instantiation not found (%d)" % len(G))
    else:
        G = G[0]
        from ..rules.layout import forward_loop
        loops = [n for n in G.walk() if n.get("k") == "ForStmt"]
        pushes = [n for n in G.walk() if astq.member_call(P, n, "push_back") and astq.is_ref_to(astq.member_call(P, n, "push_back")[0], G.params[1])]
        good = len(loops) == 1 and len(pushes) == 1 and forward_loop(P, G, loops[0])[0]
        if good:
            okl, iv, bound = forward_loop(P, G, loops[0])
            base = [n for n in G.walk(loops[0]) if n.get("k") == "VarDecl" and n.get("n") == "base"]
            good = bool(base) and ("std::to_string(%s)" % P.d(iv).get("n")) in norm.render(P, base[0]["c"][0]) and "Size()" in norm.render(P, bound)
        if good and okw:
            rep.ok(rule, "parameters.features filled by push_back in a forward loop over the JSON array index; no other writer", G.loc, G.qn)
        elif not good:
            rep.violation(rule, "get_unique_pointers<Features::Interface>", G.loc, G.qn, "", "the feature list is not built in file order", key=rule + "|fill",
                          witness="file with two overlapping features in both orders")


def main(tier):
    rep = run.Report("C02", tier)
    P = facts.load("release")
    rep.analysed["tree_hash"] = P.tree_hash
    fold_order(P, rep)
    guard.writes_under_extent(P, rep)
    roots = pure.query_roots(P)
    pure.run(P, rep, roots)
    models.operation_algebra(P, rep)
    models.operation_discipline(P, rep)
    models.new_value_independent(P, rep)
    models.feature_folds(P, rep)
    models.seed_copies(P, rep)
    rep.attempt(models.blend_identity, P, rep)     # equal section values are handed on unchanged
    models.tag_registry(P, rep)
    sib.model_families(P, rep, rule="SIB.composition", kinds=("Composition",), floor=3)
    sib.model_families(P, rep, rule="SIB.temperature", kinds=("Temperature",), floor=5)     # copies of one model treat the incoming value alike
    rep.explanation = ("Fold order (single forward loop, list built in file order, no other writer), every feature write control-dependent on "
                       "the same extent test that depends only on geometry (with the effect analysis: a non-covering feature has no "
                       "influence at all), operation algebra and string mapping, every model honours its operation with a new value "
                       "independent of the painted value, per-kind model folds and tag writes.")
    return rep.finish()
