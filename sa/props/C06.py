"""C06 — slab and fault geometry (structural necessary conditions only)."""
from .. import facts, run
from ..rules import dep, frame, segments, pure


def main(tier):
    rep = run.Report("C06", tier)
    P = facts.load("release")
    rep.analysed["tree_hash"] = P.tree_hash
    segments.membership(P, rep)
    segments.plane_call_sites(P, rep)
    segments.line_siblings(P, rep)
    segments.kernel_interpolation(P, rep)
    segments.nearest_segment_selection(P, rep)
    rep.attempt(frame.frame_axes, P, rep)            # the local frame: horizontal axis = up direction rotated about the trench direction
    rep.attempt(frame.arc_segment, P, rep)           # ... and one arc segment the circular construction
    rep.attempt(frame.straight_segment, P, rep)      # one straight segment of the slab frame equals the planar construction
    rep.attempt(segments.segment_blend, P, rep)      # thickness / truncation between the two ends of a segment follow the fraction along the segment
    rep.attempt(dep.bbox_extremes, P, rep)           # membership is tested inside the box spanned by the extreme trench coordinates
    dep.culling(P, rep)      # membership iff the distances are in range: the shortcuts in front must not discard members
    dep.accumulators(P, rep)
    rep.assumptions.append("of Utilities::distance_point_from_curved_planes the per-segment step (straight line / circular arc: end point, attribution "
                           "range, signed distance, along distance, reference depth) and the selection of the nearest segment are decided; of the "
                           "local 2D frame the rotated axis of the below-the-trench case and the common origin of the two projections are decided; "
                           "the closest point on the trench, the spherical corrections and the Newton closest-point search are NOT decided")
    # the answer does not depend on what was queried before (no cache that outlives a query: a necessary condition for a
    # statement about 'all worlds and all points', which includes a second world in the same process)
    pure.run(P, rep, pure.query_roots(P))
    rep.explanation = ("Membership predicates as normalised relations over the two distances, inclusive depth gate, agreement of the two "
                       "call sites of the curved-planes kernel and of the starting radius, unswapped hand-over of the two distances up to "
                       "World::distance_to_plane, slab/fault sibling agreement with a frozen table of explained differences; symbolic "
                       "evaluation of one segment step of the slab-frame kernel against the planar construction (straight line, circular arc on "
                       "14 paths incl. probes just outside the rounding guards, rotated axis and common origin of the local frame).")
    return rep.finish()
