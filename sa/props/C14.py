"""C14 — concurrent queries are race-free; gwb-grid output does not depend on -j."""
from .. import facts, run
from ..rules import pure, par


def main(tier):
    rep = run.Report("C14", tier)
    P = facts.load("release")
    rep.analysed["tree_hash"] = P.tree_hash
    roots = pure.query_roots(P)
    rep.floor("PURE.roots", len(roots), 12, "query root functions")
    E, R, S, rc = pure.run(P, rep, roots)
    pure.stream_io(P, rep, R)
    sites = par.parallel_sites(P)
    rep.floor("PAR.sites", len(sites), 2, "parallel_for call sites with a lambda")
    pools = {}
    for F, call, lam, op, PF in sites:
        par.check_lambda(P, rep, F, call, lam, op)
        # the world is used through const members only, and those members are PURE roots
        for n in op.walk():
            if n.get("k") == "CXXMemberCallExpr" and P.d(n.get("callee")).get("cls") == "WorldBuilder::World":
                d = P.d(n["callee"])
                if not d.get("const"):
                    rep.violation("PAR.world", "non-const World member %s called from a parallel callable" % d.get("qn"),
                                  op.nloc(n), op.qn, d.get("qn"), "shared world modified concurrently",
                                  key="PAR.world|%s" % d.get("qn"))
                elif n["callee"] not in {r.key for r in roots}:
                    rep.violation("PAR.world", "World member %s is not an analysed query root" % d.get("qn"), op.nloc(n), op.qn,
                                  d.get("qn"), "not covered by PURE", key="PAR.world|root|%s" % d.get("qn"))
                else:
                    rep.ok("PAR.world", "%s calls %s" % (op.nloc(n), d.get("qn")), op.nloc(n), op.qn)
        if PF is None:
            rep.unknown("PAR.pool", "no body for the parallel_for instantiation called at %s" % F.nloc(call))
        else:
            pools[PF.key] = PF
    for PF in pools.values():
        par.check_pool(P, rep, PF)
    par.after_join_single_threaded(P, rep, None)
    rep.explanation = ("Effect analysis over the class-hierarchy call graph from the World query entry points: no "
                       "reachable function writes memory that outlives the call (no data race is possible without a "
                       "shared write), no shared stream I/O.")
    return rep.finish()
