"""C14 — concurrent queries are race-free; gwb-grid output does not depend on -j."""
from .. import facts, run
from ..rules import pure


def main(tier):
    rep = run.Report("C14", tier)
    P = facts.load("release")
    rep.analysed["tree_hash"] = P.tree_hash
    roots = pure.query_roots(P)
    rep.floor("PURE.roots", len(roots), 12, "query root functions")
    E, R, S, rc = pure.run(P, rep, roots)
    pure.stream_io(P, rep, R)
    rep.explanation = ("Effect analysis over the class-hierarchy call graph from the World query entry points: no "
                       "reachable function writes memory that outlives the call (no data race is possible without a "
                       "shared write), no shared stream I/O.")
    return rep.finish()
