"""C01 — query answers are a pure function of the input file and the query."""
from .. import facts, run
from ..rules import pure, layout, fwd


def main(tier):
    rep = run.Report("C01", tier)
    P = facts.load("release")
    rep.analysed["tree_hash"] = P.tree_hash
    roots = pure.query_roots(P)
    rep.floor("PURE.roots", len(roots), 12, "query root functions")
    E, R, S, rc = pure.run(P, rep, roots)
    pure.stream_io(P, rep, R)
    rep.floor("PURE.models", sum(1 for k in R if k in P.funcs and "Models::" in P.funcs[k].qn and P.funcs[k].name.startswith("get_")), 57,
              "model get_* functions reached from the roots")
    tables, outv, counter = layout.width_tables(P, rep)
    layout.fill_loop(P, rep, outv)
    layout.feature_slots(P, rep, tables["properties_output_size"][2])
    F3 = P.func("WorldBuilder::World::properties", ptypes=["array<double, 3>"])
    funcs = [(F3, F3.params[2])] + [(F, F.params[3]) for F in layout.feature_properties(P)]
    layout.xdep(P, rep, funcs)
    layout.carried(P, rep, funcs[1:])   # World::properties' own fill loop appends by design: LAYOUT.L2 decides it
    fwd.convenience_members(P, rep)
    layout.wrapper2d(P, rep, counter)
    rep.explanation = ("Effect analysis (no state outlives a query), symbolic agreement of the three width tables and of "
                       "the slot bookkeeping, confinement of every feature's accesses to its own block, and absence of "
                       "any dependence on the request list as a whole.")
    return rep.finish()
