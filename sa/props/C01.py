"""C01 — query answers are a pure function of the input file and the query."""
from .. import facts, run
from ..rules import pure, layout, fwd


def main(tier):
    rep = run.Report("C01", tier)
    P = facts.load("release")
    rep.analysed["tree_hash"] = P.tree_hash
    roots = pure.query_roots(P)
    rep.floor("PURE.roots", len(roots), 12, "query root functions")
    E, R, S, rc = pure.run(P, rep, roots)
    pure.stream_io(P, rep, R)
    pure.world_fields_initialised(P, rep)
    rep.floor("PURE.models", sum(1 for k in R if k in P.funcs and "Models::" in P.funcs[k].qn and P.funcs[k].name.startswith("get_")), 57,
              "model get_* functions reached from the roots")
    F3 = P.func("WorldBuilder::World::properties", ptypes=["array<double, 3>"])
    F2 = P.func("WorldBuilder::World::properties", ptypes=["array<double, 2>"])
    funcs = [(F3, F3.params[2])] + [(F, F.params[3]) for F in layout.feature_properties(P)]
    rep.attempt(layout.no_early_exit, P, rep, funcs + [(F2, F2.params[2])])
    wt = rep.attempt(layout.width_tables, P, rep)
    if wt is not None:
        tables, outv, counter = wt
        rep.attempt(layout.fill_loop, P, rep, outv)
        rep.attempt(layout.feature_slots, P, rep, tables["properties_output_size"][2])
        rep.attempt(layout.wrapper2d, P, rep, counter)
    rep.attempt(layout.xdep, P, rep, funcs)
    rep.attempt(layout.carried, P, rep, funcs[1:])   # World::properties' own fill loop appends by design: LAYOUT.L2 decides it
    rep.attempt(fwd.convenience_members, P, rep)
    rep.explanation = ("Effect analysis (no state outlives a query), symbolic agreement of the three width tables and of "
                       "the slot bookkeeping, confinement of every feature's accesses to its own block, and absence of "
                       "any dependence on the request list as a whole.")
    return rep.finish()
