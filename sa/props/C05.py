"""C05 — models documented by a closed-form expression return that expression (structural parts)."""
from .. import facts, run
from ..rules import dep, sib, models, footprint, pure


def main(tier):
    rep = run.Report("C05", tier)
    P = facts.load("release")
    rep.analysed["tree_hash"] = P.tree_hash
    fam = sib.model_families(P, rep)
    models.operation_discipline(P, rep)
    models.range_guard(P, rep)
    models.sentinels(P, rep)
    dep.surface_pairing(P, rep)
    models.formulas(P, rep, thorough=(tier == "thorough"))
    models.cooling_formulas(P, rep)
    models.smooth_blend(P, rep)
    rep.attempt(models.parameter_single_source, P, rep)
    rep.attempt(models.polynomial_tables, P, rep)          # tian2019: one table per polynomial
    rep.attempt(models.mckenzie_formula, P, rep)           # the slab plate model is McKenzie's series
    rep.attempt(footprint.angle_interpolation, P, rep)     # the Gaussian plume's ellipse orientation between two cross sections
    rep.attempt(footprint.ellipse_fraction, P, rep)
    footprint.ridge_alias_twins(P, rep)    # (dist, v) of the cooling formulas come from one and the same ridge point
    rep.assumptions.append("mass-conserving slab and tian2019 parameterisations have no independent closed form short enough to serve as an "
                           "oracle: not decided (the Chapman geotherm is compared with its quadratic); numerical accuracy not decided")
    # the answer does not depend on what was queried before (no cache that outlives a query: a necessary condition for a
    # statement about 'all worlds and all points', which includes a second world in the same process)
    pure.run(P, rep, pure.query_roots(P))
    rep.explanation = ("Sibling cross-check of all replicated model classes in normal form (one closed form per family), operation "
                       "discipline of every temperature/composition model, model range guards with inclusive bounds, sentinel "
                       "handling of 'negative means global/adiabatic' parameters, and algebraic comparison of the simple closed forms.")
    return rep.finish()
