"""C18 — gwb-grid writes the library's values at its nodes (layout, provenance, parallel discipline)."""
from .. import facts, run
from ..rules import consumers, layout, par


def main(tier):
    rep = run.Report("C18", tier)
    P = facts.load("release")
    rep.analysed["tree_hash"] = P.tree_hash
    tables, outv, counter = layout.width_tables(P, rep)
    widths = tables["properties_output_size"][2]
    consumers.gwb_grid(P, rep, widths)
    sites = par.parallel_sites(P)
    rep.floor("PAR.sites", len(sites), 2, "parallel_for call sites")
    pools = {}
    for F, call, lam, op, PF in sites:
        par.check_lambda(P, rep, F, call, lam, op)
        if PF is not None:
            pools[PF.key] = PF
    for PF in pools.values():
        par.check_pool(P, rep, PF)
    consumers.filter_copy(P, rep)
    consumers.filter_call_sites(P, rep)
    consumers.grid_depth(P, rep)
    consumers.base64_length(P, rep)
    rep.attempt(consumers.zlib_blocks, P, rep)
    consumers.grid_cartesian(P, rep)
    rep.attempt(consumers.grid_chunk, P, rep)
    rep.attempt(consumers.grid_annulus, P, rep)
    from ..rules import frame as _frame
    rep.attempt(_frame.bilinear_patch, P, rep)
    rep.attempt(_frame.sphere_projection, P, rep)     # sphere grid: nodes are moved along their ray onto the requested radius
    rep.attempt(consumers.sphere_layers, P, rep)      # ... each layer from a fresh copy of the unit shell, at radius inner + (outer-inner) i/n
    rep.attempt(consumers.chunk_bounds_validation, P, rep)   # 'all bounds': impossible chunks are refused, as the messages promise
    rep.attempt(consumers.shell_radius_checks, P, rep)       # chunk, annulus and sphere agree on refusing inner >= outer radius
    consumers.option_loop_discipline(P, rep, "gwb-grid", "GRID.options")
    rep.assumptions.append("of the four grid generators the Cartesian one is decided (node positions, connectivity); of the sphere generator the "
                           "bilinear block patch and the projection onto the radius; the chunk generator is decided (lattice, conversion, "
                           "connectivity, compressed numbering) and so is the annulus generator (incl. the wrap-around column); the uncompressed "
                           "numbering and the merging of sphere blocks are NOT decided (DESIGN.md §4 C18)")
    rep.explanation = ("Layout agreement between gwb-grid's request list, the library's width table, the output offsets stored "
                       "into each VTU data set, dataSetInfo and filter_vtu_mesh's literal indices; same-index provenance of node "
                       "position and depth; parallel-loop discipline; structure of the mesh filter; closed forms of the Cartesian, chunk and "
                       "annulus meshes (node lattice, conversion, connectivity) and of the sphere block patch / projection; block structure of "
                       "the base64 and zlib encoders.")
    return rep.finish()
