"""C04 — area features and plumes occupy their declared footprint and depth range (structural necessary conditions)."""
from .. import facts, run
from ..rules import dep, footprint, pure, kernels


def main(tier):
    rep = run.Report("C04", tier)
    P = facts.load("release")
    rep.analysed["tree_hash"] = P.tree_hash
    footprint.closed_extent(P, rep)
    footprint.alias_wrappers(P, rep)
    footprint.polygon_boundary(P, rep)
    kernels.merge_structure(P, rep)    # local depth range: the listed depth values reach the depth surface
    kernels.barycentric(P, rep)
    dep.alias_callers(P, rep)
    footprint.plume_sections(P, rep)
    footprint.angle_interpolation(P, rep)
    footprint.ellipse_fraction(P, rep)
    footprint.plume_head(P, rep)
    dep.surface_pairing(P, rep)
    rep.assumptions.append("of the winding-number test (polygon_contains_point_implementation) the closed boundary rule and the sign / direction of the crossing count are decided; its exactness in floating-point arithmetic is NOT")
    # the answer does not depend on what was queried before (no cache that outlives a query: a necessary condition for a
    # statement about 'all worlds and all points', which includes a second world in the same process)
    pure.run(P, rep, pure.query_roots(P))
    rep.explanation = ("Closed depth intervals and polygon-test arguments of the extent tests, shape of the longitude-alias wrappers and their "
                       "exclusive use, plume bracket interpolation (each quantity from its own table with one fraction, front/back outside "
                       "the table), shorter-arc angle interpolation in its three cases, ellipse equation, depth-surface pairing.")
    return rep.finish()
