"""C10 — segment models are inherited and sections interpolate only between neighbours."""
from .. import facts, run
from ..rules import asserts, segments, pure


def main(tier):
    rep = run.Report("C10", tier)
    P = facts.load("release")
    rep.analysed["tree_hash"] = P.tree_hash
    segments.twin_blocks(P, rep)
    segments.line_siblings(P, rep)
    segments.kernel_interpolation(P, rep)
    segments.interpolation_shape(P, rep)
    rep.attempt(segments.segment_blend, P, rep)      # down-dip blend by the segment fraction; models receive interpolated values
    segments.section_model_loops(P, rep)
    rep.attempt(segments.section_index_as_reported, P, rep)   # the section index is the one the trench curve reported
    segments.table_provenance(P, rep)
    asserts.input_indexed_elements(P, rep)
    rep.assumptions.append("that the section fraction is exactly 0 at a coordinate (Newton on the Bezier curve) and the JSON copy mechanics "
                           "inside rapidjson are NOT decided")
    # the answer does not depend on what was queried before (no cache that outlives a query: a necessary condition for a
    # statement about 'all worlds and all points', which includes a second world in the same process)
    pure.run(P, rep, pure.query_roots(P))
    rep.explanation = ("Kind twin blocks of the segment parser and of the section defaults (identical after kind substitution, lists handed "
                       "on in order), slab/fault sibling agreement, convex-combination shape of every section interpolation with the "
                       "neighbouring section, per-section model loops, provenance and sizing of the per-section tables, guarded section "
                       "override.")
    return rep.finish()
