"""C15 — seeded randomness is reproducible and random grains are valid."""
from .. import facts, run
from ..rules import pure, quat, rng


def main(tier):
    rep = run.Report("C15", tier)
    P = facts.load("release")
    rep.analysed["tree_hash"] = P.tree_hash
    rng.banned_sources(P, rep)
    callers = rng.draws(P, rep)
    rng.engine_writes(P, rep)
    from ..rules import pure as _pure
    _pure.world_fields_initialised(P, rep)     # the seed handed to the engine is seed + MPI_RANK: both must be determinate
    # PURE: with the RNG draw as the only effect, the answers of a random world are a function of file, seed
    # and the sequence of draws, i.e. of the query history
    roots = pure.query_roots(P)
    E, R, S, rc = pure.run(P, rep, roots)
    rep.floor("PURE.rng-callers", len({f.qn for f in rc}), 12, "random model functions reached from the query roots")
    funcs = [P.funcs_named(q)[0] for q in sorted(callers)]
    n = rng.leader_index_agreement(P, rep, funcs)
    rep.floor("A2.same-index", n, 12, "composition-selection loops in random models")
    grains_funcs = [f for f in funcs if f.name == "get_grains"]
    if tier == "thorough":
        rng.rotation_identity(P, rep, grains_funcs)
    rng.size_normalisation(P, rep, grains_funcs)
    rng.broadcast_single_value(P, rep)
    quat.quaternion_blend(P, rep)      # orientations blended between two sections stay proper rotations
    # the grains block that reaches the caller is the one the models wrote: producer, walker and the 2D wrapper agree on its width
    from ..rules import layout as _layout

    def _grains_block(P, rep):
        tables, outv, counter = _layout.width_tables(P, rep)
        _layout.wrapper2d(P, rep, counter)
    rep.attempt(_grains_block, P, rep)
    rep.explanation = ("Entropy discipline over the whole library (banned sources, every draw on the world's engine, engine "
                       "written only at construction and by the file's seed entry), effect analysis (the RNG draw is the only "
                       "state a query touches), index agreement of per-composition tables, size normalisation shape; computer-algebra "
                       "proofs that Euler-angle bases, the 3x3 product, quat_cast / slerp / mat3_cast and their chain in the blended "
                       "grains give proper rotations; thorough tier: symbolic proof that the generated random matrices are proper rotations.")
    return rep.finish()
