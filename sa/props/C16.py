"""C16 — the C and C++ wrappers are transparent."""
from .. import astq, facts, norm, run
from ..astq import sc
from ..rules import fwd, pure
from ..tu import AnalysisBroken

# wrapper -> (World member, index of the handle parameter, index of the out-parameter, element-wise result)
C_API = {
    "properties_output_size": ("properties_output_size", 0, None, False),
    "properties_2d": ("properties", 0, 6, True),
    "properties_3d": ("properties", 0, 7, True),
    "temperature_2d": ("temperature", 0, 4, False),
    "temperature_3d": ("temperature", 0, 5, False),
    "composition_2d": ("composition", 0, 5, False),
    "composition_3d": ("composition", 0, 6, False),
}
CPP_API = {
    # name -> (World member, nparams, sibling it may forward to, ignored parameter indices)
    ("temperature_2d", 3): ("temperature", None, ()),
    ("temperature_2d", 4): ("temperature", "wrapper_cpp::WorldBuilderWrapper::temperature_2d", (3,)),
    ("temperature_3d", 4): ("temperature", None, ()),
    ("temperature_3d", 5): ("temperature", "wrapper_cpp::WorldBuilderWrapper::temperature_3d", (4,)),
    ("composition_2d", 4): ("composition", None, ()),
    ("composition_3d", 5): ("composition", None, ()),
}


_ARITH = {"bool": ("b", 1), "char": ("i", 1), "short": ("i", 2), "int": ("i", 4), "long": ("i", 8), "long long": ("i", 8),
          "unsigned char": ("u", 1), "unsigned short": ("u", 2), "unsigned int": ("u", 4), "unsigned": ("u", 4), "unsigned long": ("u", 8),
          "unsigned long long": ("u", 8), "size_t": ("u", 8), "std::size_t": ("u", 8), "uint64_t": ("u", 8), "uint32_t": ("u", 4),
          "float": ("f", 4), "double": ("f", 8), "long double": ("f", 16)}


def _arith(t):
    """(kind, bytes) of an arithmetic type spelled with optional const / pointer / reference, else None"""
    t = t.replace("const", " ").replace("&", " ").replace("*", " ")
    t = " ".join(t.split())
    return _ARITH.get(t)


def create_world_rule(P, rep, F, rule, handle_out_idx, data_idx, is_ctor=False):
    """new World(file, has_output_dir, output_dir, seed) receives the wrapper's arguments unchanged"""
    news = [n for n in F.walk() if n.get("k") == "CXXNewExpr" and "WorldBuilder::World" in n.get("alloc", "")]
    for ini in (F.inits or []):        # a constructor may create the world in its member-initialiser list
        for root in ini.get("c", []) or []:
            if root is not None:
                news += [n for n in F.walk(root) if n.get("k") == "CXXNewExpr" and "WorldBuilder::World" in n.get("alloc", "")]
    inst = "%s -> new World(...)" % F.qn
    if len(news) != 1:
        rep.violation(rule, inst, F.loc, F.qn, "%d new-expressions" % len(news), "not exactly one world is created", key="%s|%s|new" % (rule, F.qn))
        return
    ctor = news[0]["c"][0] if news[0].get("c") else None
    if ctor is None or ctor.get("k") not in ("CXXConstructExpr", "CXXTemporaryObjectExpr"):
        rep.unknown(rule, "%s: new World without constructor call" % F.qn)
        return
    fw = fwd.Forward(P, F)
    args = [a for a in ctor["c"] if a is not None and a.get("k") != "CXXDefaultArgExpr"]
    names = ["file name", "has_output_dir", "output_dir", "random number seed"]
    good = True
    for i, a in enumerate(args):
        want = F.params[data_idx[i]] if i < len(data_idx) else None
        try:
            ls = fw.leaves(a)
        except fwd.Bad as b:
            rep.violation(rule, "%s: %s" % (inst, names[i]), F.nloc(b.node) if b.node else F.nloc(a), F.qn, norm.render(P, a), b.reason,
                          key="%s|%s|arg%d" % (rule, F.qn, i), witness="create a world with an output directory path longer than one character")
            good = False
            continue
        except fwd.Unknown as u:
            rep.unknown(rule, "%s arg %d: %s" % (F.qn, i, u))
            good = False
            continue
        got = [l.key for l in ls if l.key is not None]
        if got != [want]:
            rep.violation(rule, "%s: %s" % (inst, names[i]), F.nloc(a), F.qn, norm.render(P, a),
                          "receives %s, expected parameter %s" % ([fw.name(k) for k in got], fw.name(want) if want else "?"),
                          key="%s|%s|arg%d" % (rule, F.qn, i), witness="create_world with distinguishable arguments")
            good = False
        else:
            rep.ok(rule, "%s: %s <- %s (%s)" % (F.name, names[i], fw.name(want), ls[0].form), F.nloc(a), F.qn)
    # the arithmetic arguments keep their value: the wrapper's parameter type must hold every value of the World parameter's type
    wcs = [f for f in P.funcs_named("WorldBuilder::World::World") if len(f.params) >= 4]
    if len(wcs) == 1:
        for i, a in enumerate(args[:4]):
            if i >= len(data_idx):
                continue
            tw = _arith(P.d(wcs[0].params[i]).get("t", ""))
            tp = _arith(P.d(F.params[data_idx[i]]).get("t", ""))
            if tw is None or tp is None:
                continue
            if tp[0] != tw[0] or tp[1] < tw[1]:
                rep.violation(rule, "%s: %s type" % (inst, names[i]), F.loc, F.qn, P.d(F.params[data_idx[i]]).get("t", ""),
                              "the wrapper takes the value as %s but the World takes %s: values are converted on the way"
                              % (P.d(F.params[data_idx[i]]).get("t", ""), P.d(wcs[0].params[i]).get("t", "")),
                              key="%s|%s|type%d" % (rule, F.qn, i), witness="a seed above 2^53 (double) or above the narrower type's range")
            else:
                rep.ok(rule, "%s: %s keeps its type (%s)" % (F.name, names[i], P.d(F.params[data_idx[i]]).get("t", "")), F.loc, F.qn)
    else:
        rep.unknown(rule, "World constructor: %d candidates" % len(wcs))
    if len(args) != 4:
        rep.violation(rule, inst, F.nloc(ctor), F.qn, norm.render(P, ctor), "%d arguments reach the World constructor, 4 expected" % len(args),
                      key="%s|%s|nargs" % (rule, F.qn))
    # the pointer is stored in the handle unchanged
    return good


def main(tier):
    rep = run.Report("C16", tier)
    P = facts.load("release")
    rep.analysed["tree_hash"] = P.tree_hash
    rule = "FWD.c"
    rep.rule(rule, "every extern \"C\" query function makes exactly one call to the World member of the same name and "
                   "dimension on the handle cast back to World*, passes its data parameters unchanged and in declared "
                   "order, and stores the result unchanged through its out-parameter")
    n = 0
    for name, (member, h, o, elem) in C_API.items():
        F = P.func(name)
        if not F.decl.get("externc"):
            raise AnalysisBroken("%s is not extern \"C\"" % name)
        n += 1
        call = fwd.check_wrapper(P, rep, F, rule, member, handle_idx=h, out_idx=o)
        if call is not None:
            fwd.handle_cast(P, rep, F, call, rule, h)
            fwd.result_reaches(P, rep, F, call, rule, out_idx=o, elementwise=elem)
            # dimension: 2d wrappers call the array<2> overload
            pt = P.d(call["callee"]).get("pt", [{}])[0].get("t", "")
            want = "2" if name.endswith("_2d") else "3" if name.endswith("_3d") else None
            if want and ("array<double, %s>" % want) not in pt:
                rep.violation(rule, "%s dimension" % name, F.nloc(call), F.qn, pt, "forwards to the wrong dimension", key="%s|%s|dim" % (rule, name))
    rep.floor(rule, n, 7, "extern C query functions")
    # create / release
    rule2 = "FWD.lifecycle"
    rep.rule(rule2, "create_world / the C++ wrapper constructor pass (file, has_output_dir, output_dir, seed) unchanged to new "
                    "World and store the pointer in the handle; release_world / the destructor delete exactly that pointer")
    F = P.func("create_world")
    create_world_rule(P, rep, F, rule2, 0, [1, 2, 3, 4])
    stores = [x for x in F.walk() if x.get("k") == "BinaryOperator" and x.get("op") == "=" and sc(x["c"][0]).get("k") == "UnaryOperator"
              and sc(x["c"][0]).get("op") == "*" and astq.is_ref_to(sc(x["c"][0])["c"][0], F.params[0])]
    if len(stores) == 1:
        rep.ok(rule2, "create_world stores the world in *handle", F.nloc(stores[0]), F.qn, norm.render(P, stores[0]))
    else:
        rep.violation(rule2, "create_world handle store", F.loc, F.qn, "%d stores" % len(stores), "handle not set exactly once", key=rule2 + "|create|store")
    R = P.func("release_world")
    dels = [x for x in R.walk() if x.get("k") == "CXXDeleteExpr"]
    fw = fwd.Forward(P, R)
    okd = False
    if len(dels) == 1:
        try:
            ls = fw.leaves(dels[0]["c"][0])
            okd = [l.key for l in ls] == [R.params[0]] and "World *" in sc(dels[0]["c"][0]).get("t", "")
        except (fwd.Bad, fwd.Unknown):
            okd = False
    if okd:
        rep.ok(rule2, "release_world deletes the handle as World*", R.nloc(dels[0]), R.qn)
    else:
        rep.violation(rule2, "release_world", R.loc, R.qn, "; ".join(norm.render(P, d) for d in dels), "does not delete exactly the handle as World*",
                      key=rule2 + "|release", witness="create/release cycle")
    # C++ wrapper
    rule3 = "FWD.cpp"
    rep.rule(rule3, "every WorldBuilderWrapper query member forwards its data parameters unchanged and in order to the World "
                    "member of the same name and dimension (or to its sibling overload, dropping only the deprecated gravity "
                    "argument) and returns the result")
    ncpp = 0
    for (name, npar), (member, sibling, ignore) in CPP_API.items():
        fs = [f for f in P.funcs_named("wrapper_cpp::WorldBuilderWrapper::" + name) if len(f.params) == npar]
        if len(fs) != 1:
            raise AnalysisBroken("C++ wrapper %s/%d: %d candidates" % (name, npar, len(fs)))
        F = fs[0]
        ncpp += 1
        call = fwd.check_wrapper(P, rep, F, rule3, member, handle_idx=None, out_idx=None, ignore=ignore, own_callee=sibling)
        if call is not None:
            if sibling is None:
                fwd.handle_cast(P, rep, F, call, rule3, None)
                pt = P.d(call["callee"]).get("pt", [{}])[0].get("t", "")
                want = "2" if name.endswith("_2d") else "3"
                if ("array<double, %s>" % want) not in pt:
                    rep.violation(rule3, "%s dimension" % name, F.nloc(call), F.qn, pt, "forwards to the wrong dimension", key="%s|%s|dim" % (rule3, name))
            fwd.result_reaches(P, rep, F, call, rule3, out_idx=None)
    rep.floor(rule3, ncpp, 6, "C++ wrapper query members")
    ctors = [f for f in P.funcs_named("wrapper_cpp::WorldBuilderWrapper::WorldBuilderWrapper") if len(f.params) == 4]
    if len(ctors) != 1:
        raise AnalysisBroken("C++ wrapper constructor not found")
    create_world_rule(P, rep, ctors[0], rule2, None, [0, 1, 2, 3], is_ctor=True)
    D = P.func("wrapper_cpp::WorldBuilderWrapper::~WorldBuilderWrapper")
    dels = [x for x in D.walk() if x.get("k") == "CXXDeleteExpr"]
    okd = False
    if len(dels) == 1:
        v = sc(dels[0]["c"][0])
        if v.get("k") == "DeclRefExpr":
            init = fwd.Forward(P, D).inits.get(v["r"])
            v = sc(init)
        v = fwd.see_through_accessor(P, D, v)
        okd = v is not None and astq.is_this_field(P, v, fwd.world_field_name(P))
    if okd:
        rep.ok(rule2, "~WorldBuilderWrapper deletes the stored world as World*", D.nloc(dels[0]), D.qn)
    else:
        rep.violation(rule2, "~WorldBuilderWrapper", D.loc, D.qn, "", "does not delete exactly the stored world", key=rule2 + "|dtor")
    # the wrappers add no state of their own: effect analysis rooted at the wrapper query functions (out-parameters allowed)
    wroots = [P.func(nm) for nm in C_API] + [f for (nm, npar) in CPP_API for f in P.funcs_named("wrapper_cpp::WorldBuilderWrapper::" + nm) if len(f.params) == npar]
    allow = {(P.func(nm).qn, o) for nm, (_, _, o, _) in C_API.items() if o is not None}
    pure.run(P, rep, wroots, rule="PURE.wrappers", allow_param_writes=allow)
    pure.no_swallow(P, rep, wroots)
    rep.explanation = ("Forwarding analysis of the 10 extern \"C\" functions and the 8 members of WorldBuilderWrapper: callee, "
                       "argument provenance (identity forms of the wrapper's parameters in declared order), result path, "
                       "handle round trip and new/delete pairing.")
    return rep.finish()
