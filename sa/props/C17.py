"""C17 — gwb-dat prints exactly the library's values under its column headers."""
from .. import facts, run
from ..rules import consumers, layout


def main(tier):
    rep = run.Report("C17", tier)
    P = facts.load("release")
    rep.analysed["tree_hash"] = P.tree_hash
    tables, outv, counter = layout.width_tables(P, rep)
    widths = tables["properties_output_size"][2]
    consumers.gwb_dat(P, rep, widths)
    consumers.index_guards(P, rep, "gwb-dat")
    consumers.dat_input_discipline(P, rep)
    consumers.option_loop_discipline(P, rep, "gwb-dat", "DAT.options")
    consumers.number_parsers(P, rep)
    rep.assumptions.append("number formatting of the printed values is not decided")
    rep.explanation = ("Layout agreement between gwb-dat's request list, the library's width table, the offsets it prints and the "
                       "header it writes (polynomials in compositions, grain compositions, grains), provenance of the row query "
                       "arguments, and index guards on tokenised option lines.")
    return rep.finish()
