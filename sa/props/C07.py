"""C07 — acceleration shortcuts never change an answer (structural necessary conditions)."""
from .. import facts, run
from ..rules import dep, footprint, pure, segments


def main(tier):
    rep = run.Report("C07", tier)
    P = facts.load("release")
    rep.analysed["tree_hash"] = P.tree_hash
    dep.culling(P, rep)
    rep.attempt(dep.bbox_longitude_buffer, P, rep)
    rep.attempt(dep.bbox_extremes, P, rep)         # the box spans the extreme trench coordinates
    segments.line_siblings(P, rep)     # slab and fault are copies of one another: shortcuts, input checks and guards must agree
    dep.accumulators(P, rep)
    dep.surface_pairing(P, rep)
    dep.surface_fallback(P, rep)
    rep.attempt(dep.triangle_pairing, P, rep)      # vertices, coefficients and reported index of one triangle
    dep.alias_callers(P, rep)
    footprint.alias_wrappers(P, rep)
    rep.assumptions.append("both longitude buffers of the spherical box dominate b/cos(latitude) at the two trench ends; whether the margin 2*pi "
                           "suffices for points still closer to the pole, and the kd-tree pruning arithmetic, are NOT decided (DESIGN.md §4 C07, §10.17)")
    # the answer does not depend on what was queried before (no cache that outlives a query: a necessary condition for a
    # statement about 'all worlds and all points', which includes a second world in the same process)
    pure.run(P, rep, pure.query_roots(P))
    rep.explanation = ("Dependence sets of every culling bound (depth cut-off, bounding box) against what the exact extent depends on, "
                       "coverage of the max-accumulators, pairing of constant pre-test bounds with their depth surfaces, full-scan "
                       "fallback before Surface::local_value throws, who-may-call of the alias-unaware implementations, cut-off value of the "
                       "depth shortcut, and dominance of both longitude buffers of the spherical box over b/cos(latitude) at both trench ends.")
    return rep.finish()
