"""C13 — queries on a built world are total (termination, exception type); finiteness is not decided."""
from .. import facts, run
from ..rules import asserts, dep, divguard, kernels, loop, pure, segments, sib


def main(tier):
    rep = run.Report("C13", tier)
    P = facts.load("release")
    rep.analysed["tree_hash"] = P.tree_hash
    roots = pure.query_roots(P)
    R = P.reachable(roots)
    loop.loops(P, rep, R)
    loop.recursion(P, rep, R)
    asserts.throw_types(P, rep, R, floor=12)
    # guards that keep queries from crashing or producing NaN, as far as their shape decides it
    kernels.acos_clamp(P, rep)                 # NaN-absorbing clamp in front of acos
    rep.attempt(asserts.indexed_store_bounds, P, rep)
    rep.attempt(segments.section_index_as_reported, P, rep)   # the section index is the one the trench curve reported
    # the 2D wrapper walks the 3D result with its own counter: it stays inside the vector only if it gives every kind the width the
    # producer gave it (a wider step reads and writes past the end for a suitable request)
    from ..rules import layout as _layout

    def _walker_in_bounds(P, rep):
        tables, outv, counter = _layout.width_tables(P, rep)
        _layout.wrapper2d(P, rep, counter)
    rep.attempt(_walker_in_bounds, P, rep)
    asserts.input_indexed_elements(P, rep)     # tables indexed by numbers from the file
    segments.table_provenance(P, rep)          # per-section tables have one shape (K2): no out-of-bounds read between sections
    sib.model_families(P, rep)                 # sibling implementations agree on their guards (zero-thickness, range, sentinel tests)
    dep.surface_pairing(P, rep)
    segments.line_siblings(P, rep)     # slab and fault are copies of one another: shortcuts, input checks and guards must agree
    divguard.division_guards(P, rep, reach=R)   # denominators that vanish at the degenerate locations the property lists are guarded
    rep.assumptions.append("finiteness of the returned numbers is NOT decided in general (numeric; DESIGN.md §4 C13, §10.13); decided are: no "
                           "division in the model functions by a quantity that vanishes at the degenerate locations the property lists unless a "
                           "controlling condition excludes it (denominators that depend on user parameters only are out of scope), the "
                           "NaN-absorbing clamp before acos, release-active arity checks of per-section tables, indexed stores within the "
                           "size of their vector, agreement of sibling models on their guards")
    rep.explanation = ("Termination: every loop on the query path has a recognised bounded shape and the three call-graph cycles "
                       "match the frozen recursion table; every throw is of a std::exception type; guards against out-of-bounds table "
                       "reads and against NaN from acos have the shape that makes them effective; sibling models agree on their guards; "
                       "denominators that vanish at the degenerate locations the property lists are excluded by a controlling condition; "
                       "indexed stores into member vectors are covered by a size fact. Decides these structural facts only.")
    return rep.finish()
