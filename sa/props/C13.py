"""C13 — queries on a built world are total (termination, exception type); finiteness is not decided."""
from .. import facts, run
from ..rules import asserts, loop, pure


def main(tier):
    rep = run.Report("C13", tier)
    P = facts.load("release")
    rep.analysed["tree_hash"] = P.tree_hash
    roots = pure.query_roots(P)
    R = P.reachable(roots)
    loop.loops(P, rep, R)
    loop.recursion(P, rep, R)
    asserts.throw_types(P, rep, R, floor=12)
    rep.assumptions.append("finiteness of the returned numbers and absence of division by zero at degenerate points are NOT decided "
                           "(numeric; see DESIGN.md §4 C13)")
    rep.explanation = ("Termination: every loop on the query path has a recognised bounded shape and the three call-graph cycles "
                       "match the frozen recursion table; every throw is of a std::exception type. Decides these structural "
                       "facts only.")
    return rep.finish()
