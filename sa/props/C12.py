"""C12 — malformed or inconsistent input is rejected by an exception, never by a crash."""
from .. import facts, run
from ..rules import asserts, guard, pure, segments


def construction_roots(P):
    return P.funcs_named("WorldBuilder::World::World") + P.funcs_named("WorldBuilder::World::parse_entries")


def main(tier):
    rep = run.Report("C12", tier)
    P = facts.load("release")
    Pd = facts.load("debug")
    rep.analysed["tree_hash"] = P.tree_hash
    rep.analysed["views"] = ["release", "debug"]
    roots = pure.query_roots(P)
    R = P.reachable(roots)
    asserts.parallel_arrays(P, Pd, rep, R)
    n1 = asserts.debug_only_checks(P, Pd, rep, R)
    rep.floor("A1", n1, 8, "debug-only assertions in parse-time code examined (debug view)")
    rep.attempt(asserts.indexed_store_bounds, P, rep)
    asserts.input_indexed_elements(P, rep)
    asserts.schema_required(P, rep)
    asserts.schema_closed(P, rep)
    rep.attempt(asserts.copy_members, P, rep)      # nested schema types are clones: a clone must carry every constraint of the original
    asserts.schema_keys(P, rep)
    asserts.schema_writers(P, rep)
    asserts.json_member_order(P, rep)
    segments.line_siblings(P, rep)     # slab and fault are copies of one another: shortcuts, input checks and guards must agree
    asserts.dead_checks(P, rep)
    asserts.string_dispatch(P, rep)
    guard.input_gates(P, rep)
    RC = P.reachable(construction_roots(P)) | R
    asserts.throw_types(P, rep, RC)
    rep.explanation = ("Validation discipline: every element access to an input-derived member vector on the query path is "
                       "covered by a release-active size fact (schema minItems, WBAssertThrow, resize); size assertions the "
                       "query path relies on are not debug-only; no constant-true WBAssertThrow; string options dispatched on "
                       "literals end in a release-active rejection and agree with the schema; only std::exception types are thrown.")
    return rep.finish()
