"""Common plumbing for property checks: instances, floors, known findings, evidence, exit codes."""
import json
import os
import sys
import time

from . import tu as TU
from .tu import AnalysisBroken

VERIF = TU.VERIF
EVIDENCE_DIR = os.environ.get("WB_EVIDENCE_DIR") or os.path.join(VERIF, "evidence")
KNOWN = os.path.join(VERIF, "known_findings.json")


class Report:
    def __init__(self, pid, tier, level="other"):
        self.pid = pid
        self.tier = tier
        self.level = level
        self.t0 = time.time()
        self.instances = []       # dicts
        self.floors = []          # (rule, count, minimum, what)
        self.analysed = {}        # free-form counts of what was looked at
        self.assumptions = []
        self.explanation = ""
        self.rules = {}           # rule -> one-line statement
        self.broken = []          # analysis-broken reasons

    # -- recording -----------------------------------------------------------
    def rule(self, name, statement):
        self.rules[name] = statement

    def ok(self, rule, instance, loc="", func="", construct="", reason=""):
        self.instances.append(dict(rule=rule, instance=instance, loc=loc, function=func,
                                   construct=construct, verdict="ok", reason=reason))

    def violation(self, rule, instance, loc, func, construct, reason, key=None, witness=""):
        self.instances.append(dict(rule=rule, instance=instance, loc=loc, function=func,
                                   construct=construct, verdict="violation", reason=reason,
                                   key=key or "%s|%s" % (rule, instance), witness=witness))

    def observation(self, rule, instance, loc, func, construct, reason):
        self.instances.append(dict(rule=rule, instance=instance, loc=loc, function=func,
                                   construct=construct, verdict="observation", reason=reason))

    def floor(self, rule, count, minimum, what):
        self.floors.append((rule, count, minimum, what))
        if count < minimum:
            self.broken.append("rule %s matched %d %s, hand-confirmed floor is %d" % (rule, count, what, minimum))

    def unknown(self, rule, what):
        """an idiom the rule does not know: analysis broken, neither pass nor violation"""
        self.broken.append("rule %s: %s" % (rule, what))

    def attempt(self, fn, *a, **kw):
        """run one rule family; an AnalysisBroken inside it is recorded (exit 2 unless another rule reports a violation)
        instead of ending the whole check: the remaining rules still get to judge the tree"""
        from .tu import AnalysisBroken
        try:
            return fn(*a, **kw)
        except AnalysisBroken as e:
            self.broken.append(str(e))
            return None

    # -- finishing -----------------------------------------------------------
    def finish(self):
        known = {"findings": [], "fixed": []}
        if os.path.exists(KNOWN):
            known = json.load(open(KNOWN))
        kf = [k for k in known.get("findings", []) if k["property"] == self.pid]
        viol = [i for i in self.instances if i["verdict"] == "violation"]
        new, matched = [], []
        for v in viol:
            hit = None
            for k in kf:
                if k["instance_key"] == v["key"]:
                    hit = k
                    break
            if hit:
                matched.append((v, hit))
            else:
                new.append(v)
        stale = [k for k in kf if not any(k is h for _, h in matched)]
        try:
            from . import facts as _facts
            progs = {}
            for view, P in _facts.LOADED:
                progs[view] = dict(translation_units=list(P.tus), functions_with_body=len(P.funcs), declarations=len(P.decls),
                                   records=len(P.records), call_graph_edges=sum(len(v) for v in P.calls.values()),
                                   assertion_macro_expansions=len(P.macros), tree_hash=P.tree_hash)
            self.analysed["program"] = progs
        except Exception:
            pass
        wall = time.time() - self.t0
        os.makedirs(EVIDENCE_DIR, exist_ok=True)
        os.makedirs(os.path.join(EVIDENCE_DIR, "replay"), exist_ok=True)
        replay = os.path.join(EVIDENCE_DIR, "replay", "%s.json" % self.pid)
        n_ok = sum(1 for i in self.instances if i["verdict"] == "ok")
        distinct = len({(i["rule"], i["instance"]) for i in self.instances})
        per_rule = {}
        for i in self.instances:
            r = per_rule.setdefault(i["rule"], dict(instances=0, ok=0, violations=0, observations=0))
            r["instances"] += 1
            r[{"ok": "ok", "violation": "violations", "observation": "observations"}[i["verdict"]]] += 1
        samples = []
        seen_rules = set()
        for i in self.instances:   # one sample per rule first, then violations
            if i["rule"] not in seen_rules:
                seen_rules.add(i["rule"])
                samples.append(i)
        samples.extend(v for v in viol if v not in samples)
        ev = {
            "property_id": self.pid,
            "tier": self.tier,
            "seed": int(os.environ.get("VERIF_SEED", "0") or 0),
            "level": self.level,
            "coverage": {
                "explanation": self.explanation,
                "evaluations": len(self.instances),
                "distinct_nontrivial": distinct,
                "rule": "one evaluation = one rule instance (a resolved construct of /repo's current tree checked "
                        "against one rule); distinct = distinct (rule, instance) pairs; every instance is non-trivial "
                        "in the sense that it is a construct found in the parsed program, not a generated input",
                "obligations": len(self.instances) - sum(1 for i in self.instances if i["verdict"] == "observation"),
                "discharged": n_ok,
                "checker_cmd": "./check %s --tier %s" % (self.pid, self.tier),
                "trusted_base": ["clang 14 front end (name/overload resolution, CFG construction)",
                                 "tool/wbast.cc fact extractor", "sa/ rule engine",
                                 "signature model of libstdc++/rapidjson callees without user bodies"],
                "rules": self.rules,
                "per_rule": per_rule,
                "floors": [dict(rule=r, matched=c, floor=m, what=w) for r, c, m, w in self.floors],
                "analysed": self.analysed,
                "samples": samples[:40],
                "known_findings_matched": [dict(key=h["instance_key"], what_fails=h["what_fails"]) for _, h in matched],
                "known_findings_stale": [k["instance_key"] for k in stale],
                "analysis_broken": self.broken,
                "tree_hash": self.analysed.get("tree_hash"),
                "repo": TU.REPO,
            },
            "assumptions": self.assumptions,
            "wall_s": round(wall, 3),
            "violations": len(new),
        }
        with open(os.path.join(EVIDENCE_DIR, "%s.json" % self.pid), "w") as f:
            json.dump(ev, f, indent=1, default=str)
        with open(replay, "w") as f:
            json.dump({"property": self.pid, "violations": new, "known": [v for v, _ in matched],
                       "broken": self.broken}, f, indent=1, default=str)
        print("%s [%s]: %d rule instances, %d ok, %d violations (%d known), %d observations; %.1fs" % (
            self.pid, self.tier, len(self.instances), n_ok, len(viol), len(matched),
            sum(1 for i in self.instances if i["verdict"] == "observation"), wall))
        for r, pr in sorted(per_rule.items()):
            print("  rule %-28s instances=%-4d ok=%-4d violations=%d" % (r, pr["instances"], pr["ok"], pr["violations"]))
        for r, c, m, w in self.floors:
            print("  floor %-27s matched %d %s (floor %d)" % (r, c, w, m))
        printed = set()
        for v, h in matched:
            if h["instance_key"] in printed:
                continue
            printed.add(h["instance_key"])
            print("KNOWN-FINDING: property=%s %s [%s %s]" % (self.pid, h["what_fails"], v["loc"], v["function"]))
        for k in stale:
            print("  note: known finding %s no longer matches anything (repaired?)" % k["instance_key"])
        if self.broken:
            for b in self.broken:
                print("ANALYSIS-BROKEN property=%s %s" % (self.pid, b))
            if not new:
                return 2
        if new:
            for v in new:
                print("  violation: rule=%s instance=%s at %s in %s: %s -- %s%s" % (
                    v["rule"], v["instance"], v["loc"], v["function"], v["construct"], v["reason"],
                    (" | witness: " + v["witness"]) if v.get("witness") else ""))
            print("VIOLATION property=%s replay=%s" % (self.pid, replay))
            return 1
        return 0


def broken_exit(pid, tier, msg):
    os.makedirs(EVIDENCE_DIR, exist_ok=True)
    print("ANALYSIS-BROKEN property=%s %s" % (pid, msg))
    return 2
