"""Loader for wbast fact files: merged program model, call graph (CHA), CFG helpers."""
import json
import os
import pickle
import sys
from collections import defaultdict, deque

from . import tu as TU
from .tu import AnalysisBroken

REF_KEYS = ("r", "callee", "ctor", "lam", "cls")


class Func:
    __slots__ = ("key", "qn", "name", "file", "line", "endline", "params", "body", "cfg", "inits",
                 "tu", "decl", "nodes", "parent", "inst", "targs", "_dom", "_pdom", "_blk_of", "_cdep")

    def __init__(self):
        self._dom = None
        self._pdom = None
        self._blk_of = None
        self._cdep = None

    def __repr__(self):
        return "<Func %s %s:%d>" % (self.qn, os.path.basename(self.file), self.line)

    @property
    def loc(self):
        return "%s:%d" % (relpath(self.file), self.line)

    # ---- tree helpers -------------------------------------------------------
    def walk(self, node=None):
        stack = [node if node is not None else self.body]
        while stack:
            n = stack.pop()
            if n is None:
                continue
            yield n
            for key in ("hidden", "pre", "c"):
                ch = n.get(key)
                if ch:
                    stack.extend(reversed(ch))

    def ancestors(self, node):
        p = self.parent.get(node["i"])
        while p is not None:
            yield p
            p = self.parent.get(p["i"])

    def nloc(self, node):
        l = node.get("l")
        if l is None:
            for a in self.ancestors(node):
                if a.get("l") is not None:
                    l = a["l"]
                    break
        return "%s:%s" % (relpath(self.file), l if l is not None else "?")

    # ---- CFG helpers --------------------------------------------------------
    def blocks(self):
        return {b["id"]: b for b in self.cfg["blocks"]} if self.cfg else {}

    def block_of(self, node):
        """CFG block id in which the statement with this node id is evaluated"""
        if self._blk_of is None:
            m = {}
            if self.cfg:
                for b in self.cfg["blocks"]:
                    for s in b["s"]:
                        m.setdefault(s, b["id"])
                    # a terminator belongs to its block
                    if "t" in b:
                        m.setdefault(b["t"], b["id"])
            self._blk_of = m
        i = node.get("i")
        if i in self._blk_of:
            return self._blk_of[i]
        # fall back to the closest descendant / ancestor that is a CFG element
        for d in self.walk(node):
            if d.get("i") in self._blk_of:
                return self._blk_of[d["i"]]
        for a in self.ancestors(node):
            if a.get("i") in self._blk_of:
                return self._blk_of[a["i"]]
        return None

    def succs(self):
        return {b["id"]: [s for s in b["succ"] if s is not None] for b in self.cfg["blocks"]}

    def dominators(self):
        if self._dom is None:
            self._dom = _dominators(self.succs(), self.cfg["entry"])
        return self._dom

    def postdominators(self):
        if self._pdom is None:
            succ = self.succs()
            pred = defaultdict(list)
            for b, ss in succ.items():
                pred.setdefault(b, [])
                for s in ss:
                    pred[s].append(b)
            # blocks with no successors other than exit (throw) are linked to a virtual exit
            exits = [b for b, ss in succ.items() if not ss]
            pred2 = {b: list(v) for b, v in pred.items()}
            VEXIT = -1
            pred2[VEXIT] = []
            rsucc = {b: list(pred2.get(b, [])) for b in succ}
            rsucc[VEXIT] = exits
            self._pdom = _dominators(rsucc, VEXIT)
        return self._pdom

    def control_deps(self):
        """block -> set of (branch block, successor index) it is control dependent on
        (n is control dependent on edge a->s iff n post-dominates s and does not strictly
        post-dominate a)"""
        if self._cdep is None:
            pdom = self.postdominators()
            cd = defaultdict(set)
            for blk in self.cfg["blocks"]:
                a = blk["id"]
                ss = [s for s in blk["succ"] if s is not None]
                if len(set(ss)) < 2:
                    continue
                strict_a = pdom.get(a, set()) - {a}
                for idx, s in enumerate(blk["succ"]):
                    if s is None:
                        continue
                    for n in pdom.get(s, ()):
                        if n not in strict_a:
                            cd[n].add((a, idx))
            self._cdep = cd
        return self._cdep


def _dominators(succ, entry):
    """iterative dominator sets; succ: node -> list of successors"""
    nodes = set(succ)
    for ss in succ.values():
        nodes.update(ss)
    pred = defaultdict(list)
    for b, ss in succ.items():
        for s in ss:
            pred[s].append(b)
    # restrict to reachable nodes
    reach = set()
    dq = deque([entry])
    while dq:
        n = dq.popleft()
        if n in reach:
            continue
        reach.add(n)
        dq.extend(succ.get(n, []))
    dom = {n: set(reach) for n in reach}
    dom[entry] = {entry}
    changed = True
    order = list(reach)
    while changed:
        changed = False
        for n in order:
            if n == entry:
                continue
            ps = [p for p in pred[n] if p in reach]
            if not ps:
                continue
            new = set.intersection(*(dom[p] for p in ps)) | {n}
            if new != dom[n]:
                dom[n] = new
                changed = True
    return dom


def relpath(p):
    r = TU.REPO.rstrip("/") + "/"
    return p[len(r):] if p.startswith(r) else p


class Program:
    def __init__(self, view):
        self.view = view
        self.decls = {}
        self.funcs = {}
        self.records = {}
        self.enums = {}
        self.macros = []
        self.globals = []
        self.by_qn = defaultdict(list)
        self.tus = []
        self.tree_hash = None

    # ---- lookup -------------------------------------------------------------
    def func(self, qn, nparams=None, ptypes=None, const=None):
        """unique function with that qualified name (and filters); AnalysisBroken if missing/ambiguous"""
        c = self.funcs_named(qn, nparams, ptypes, const)
        if len(c) != 1:
            raise AnalysisBroken("anchor function %s (nparams=%s, ptypes=%s): %d candidates" % (qn, nparams, ptypes, len(c)))
        return c[0]

    def funcs_named(self, qn, nparams=None, ptypes=None, const=None):
        c = list(self.by_qn.get(qn, []))
        if nparams is not None:
            c = [f for f in c if len(f.params) == nparams]
        if ptypes is not None:
            def ok(f):
                pt = f.decl.get("pt", [])
                return all(any(p in x["t"] for x in pt[i:i + 1]) if isinstance(p, str) else True for i, p in enumerate(ptypes))
            c = [f for f in c if ok(f)]
        if const is not None:
            c = [f for f in c if bool(f.decl.get("const")) == const]
        return c

    def d(self, key):
        return self.decls.get(key, {})

    # ---- class hierarchy ----------------------------------------------------
    def build_hierarchy(self):
        self.subclasses = defaultdict(set)
        for qn, r in self.records.items():
            for b in r.get("bases", []):
                self.subclasses[b["qn"]].add(qn)
        self.overriders = defaultdict(set)   # method key -> keys of methods that override it (transitive)
        direct = defaultdict(set)
        for k, d in self.decls.items():
            for o in d.get("ovr", []):
                direct[o].add(k)
        for k in list(direct):
            seen = set()
            dq = deque(direct[k])
            while dq:
                x = dq.popleft()
                if x in seen:
                    continue
                seen.add(x)
                dq.extend(direct.get(x, []))
            self.overriders[k] = seen

    def derived_from(self, qn, base):
        seen = set()
        dq = deque([qn])
        while dq:
            x = dq.popleft()
            if x == base:
                return True
            if x in seen:
                continue
            seen.add(x)
            for b in self.records.get(x, {}).get("bases", []):
                dq.append(b["qn"])
        return False

    # ---- call graph ---------------------------------------------------------
    def call_targets(self, node):
        """decl keys a call-like node may invoke (CHA for virtual calls)"""
        k = node.get("callee") or node.get("ctor")
        if k is None:
            return []
        out = [k]
        if node.get("virt"):
            out.extend(self.overriders.get(k, ()))
        return out

    def build_callgraph(self):
        self.calls = defaultdict(set)        # func key -> callee decl keys
        self.callsites = defaultdict(list)   # callee key -> [(Func, node)]
        for f in self.funcs.values():
            for n in f.walk():
                k = n.get("k")
                if "callee" in n or "ctor" in n:
                    for t in self.call_targets(n):
                        self.calls[f.key].add(t)
                        self.callsites[t].append((f, n))
                if k == "LambdaExpr":
                    for t in ([n["lam"]] if "lam" in n else []) + list(n.get("lams", [])):
                        self.calls[f.key].add(t)
                        self.callsites[t].append((f, n))
                elif k in ("DeclRefExpr", "MemberExpr") and self.decls.get(n.get("r"), {}).get("k") in ("Function", "CXXMethod"):
                    self.calls[f.key].add(n["r"])
            for ini in f.inits or []:
                for c in ini.get("c", []):
                    for n in f.walk(c):
                        if "callee" in n or "ctor" in n:
                            for t in self.call_targets(n):
                                self.calls[f.key].add(t)
                                self.callsites[t].append((f, n))

    def reachable(self, roots):
        """set of function keys (with or without body) reachable from root Funcs"""
        seen = set()
        dq = deque(r.key for r in roots)
        while dq:
            k = dq.popleft()
            if k in seen:
                continue
            seen.add(k)
            dq.extend(self.calls.get(k, ()))
        return seen

    def path(self, root_keys, target):
        """a call-graph path from any root to target (list of keys)"""
        prev = {}
        dq = deque(root_keys)
        for r in root_keys:
            prev[r] = None
        while dq:
            k = dq.popleft()
            if k == target:
                out = []
                while k is not None:
                    out.append(k)
                    k = prev[k]
                return out[::-1]
            for c in self.calls.get(k, ()):
                if c not in prev:
                    prev[c] = k
                    dq.append(c)
        return None

    def fname(self, key):
        d = self.decls.get(key, {})
        return d.get("qn", str(key))


def _remap_nodes(node, idmap, nodes, parent, par=None):
    stack = [(node, par)]
    while stack:
        n, p = stack.pop()
        if n is None:
            continue
        if "i" not in n:
            n["i"] = -(len(nodes) + 1)
        nodes[n["i"]] = n
        if p is not None:
            parent[n["i"]] = p
        for rk in REF_KEYS:
            if rk in n:
                n[rk] = idmap.get(n[rk], n[rk])
        if "lams" in n:
            n["lams"] = [idmap.get(x, x) for x in n["lams"]]
        for cap in n.get("caps", []):
            if "r" in cap:
                cap["r"] = idmap.get(cap["r"], cap["r"])
        for key in ("hidden", "pre", "c"):
            ch = n.get(key)
            if ch:
                for c in ch:
                    stack.append((c, n))


LOADED = []     # (view, Program) of this process, for the evidence writer


def load(view="release", verbose=False):
    P = _load(view, verbose)
    LOADED.append((view, P))
    return P


def _load(view="release", verbose=False):
    paths, h = TU.extract(views=(view,), verbose=verbose)
    import hashlib
    with open(os.path.abspath(__file__), "rb") as f:
        lh = hashlib.sha256(f.read()).hexdigest()[:10]
    pk = os.path.join(TU.CACHE, h, "program.%s.%s.pickle" % (view, lh))
    sys.setrecursionlimit(100000)
    if os.path.exists(pk):
        try:
            with open(pk, "rb") as f:
                return pickle.load(f)
        except Exception:
            pass
    P = Program(view)
    P.tree_hash = h
    order = ["lib", "lib_parameters", "lib_point", "gwb-dat", "gwb-grid"]
    names = sorted((n for (n, v) in paths), key=lambda n: (order.index(n) if n in order else 99, n))
    for name in names:
        with open(paths[(name, view)]) as f:
            data = json.load(f)
        if data.get("errors", 0):
            raise AnalysisBroken("TU %s has %d parse errors" % (name, data["errors"]))
        P.tus.append(name)
        idmap = {}
        for d in data["decls"]:
            usr = d.get("usr")
            key = usr if usr else "%s#%d" % (name, d["id"])
            old = P.decls.get(key)
            if usr and old is not None and d.get("hasbody") and old.get("hasbody") and old.get("file") != d.get("file"):
                key = "%s@%s" % (usr, name)     # e.g. the two applications' main()
            idmap[d["id"]] = key
        for d in data["decls"]:
            key = idmap[d["id"]]
            for fld in ("ovr",):
                if fld in d:
                    d[fld] = [idmap.get(x, x) for x in d[fld]]
            for fld in ("fn", "clsid"):
                if fld in d:
                    d[fld] = idmap.get(d[fld], d[fld])
            d["key"] = key
            d["tu"] = name
            old = P.decls.get(key)
            if old is None:
                P.decls[key] = d
            else:
                if d.get("hasbody"):
                    old["hasbody"] = 1
        for r in data["records"]:
            r["fields"] = [idmap.get(x, x) for x in r["fields"]]
            r["methods"] = [idmap.get(x, x) for x in r["methods"]]
            r["statics"] = [idmap.get(x, x) for x in r.get("statics", [])]
            r["tu"] = name
            key = r["qn"] if not r.get("lambda") else "%s@%s:%s" % (r["qn"], r.get("file"), r.get("line"))
            if key not in P.records:
                P.records[key] = r
            else:
                # merge method lists (a class seen in two TUs may have instantiated members in one)
                old = P.records[key]
                for m in r["methods"]:
                    if m not in old["methods"]:
                        old["methods"].append(m)
        for e in data["enums"]:
            for c in e["consts"]:
                c["id"] = idmap.get(c["id"], c["id"])
            P.enums.setdefault(e["qn"], e)
        for g in data["globals"]:
            g["r"] = idmap.get(g["r"], g["r"])
            g["tu"] = name
            nodes, parent = {}, {}
            for c in g.get("c", []):
                _remap_nodes(c, idmap, nodes, parent)
            P.globals.append(g)
        for m in data["macros"]:
            m["tu"] = name
            P.macros.append(m)
        for fj in data["functions"]:
            key = idmap[fj["id"]]
            if key in P.funcs:
                continue
            F = Func()
            F.key = key
            F.qn = fj["qn"]
            F.name = fj["n"]
            F.file = fj["file"]
            F.line = fj["line"]
            F.endline = fj["endline"]
            F.params = [idmap[p] for p in fj["params"]]
            F.inst = bool(fj.get("inst"))
            F.targs = fj.get("targs")
            F.tu = name
            F.cfg = fj.get("cfg")
            F.decl = P.decls[key]
            F.nodes, F.parent = {}, {}
            body = fj["body"][0] if fj["body"] else None
            F.body = body
            _remap_nodes(body, idmap, F.nodes, F.parent)
            F.inits = fj.get("inits")
            for ini in F.inits or []:
                if "field" in ini:
                    ini["field"] = idmap.get(ini["field"], ini["field"])
                for c in ini.get("c", []):
                    _remap_nodes(c, idmap, F.nodes, F.parent)
            P.funcs[key] = F
            P.by_qn[F.qn].append(F)
    # de-duplicate macro records (headers are seen by several TUs)
    seen = set()
    mm = []
    for m in P.macros:
        k = (m["name"], m["file"], m["line"])
        if k in seen:
            continue
        seen.add(k)
        mm.append(m)
    P.macros = mm
    P.build_hierarchy()
    P.build_callgraph()
    try:
        with open(pk, "wb") as f:
            pickle.dump(P, f, protocol=pickle.HIGHEST_PROTOCOL)
    except Exception as e:  # cache only
        if verbose:
            print("cannot cache program: %s" % e, file=sys.stderr)
    return P


if __name__ == "__main__":
    import time
    t0 = time.time()
    P = load(sys.argv[1] if len(sys.argv) > 1 else "release", verbose=True)
    print("loaded in %.1fs: %d functions, %d decls, %d records, %d macros" % (
        time.time() - t0, len(P.funcs), len(P.decls), len(P.records), len(P.macros)))
