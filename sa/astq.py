"""Small AST query helpers shared by the rules."""
from . import norm

LOOPS = ("ForStmt", "WhileStmt", "DoStmt", "CXXForRangeStmt")


def sc(n):
    return norm.strip_casts(n)


def is_ref_to(n, key):
    n = sc(n)
    return n is not None and n.get("k") == "DeclRefExpr" and n.get("r") == key


def is_this_field(P, n, name=None):
    n = sc(n)
    if n is None or n.get("k") != "MemberExpr":
        return False
    base = n.get("c", [None])[0]
    if base is not None and sc(base).get("k") != "CXXThisExpr":
        return False
    return name is None or n.get("n") == name


def flatten_switch_body(body):
    """linear list of ('label', value|'default', node) / ('stmt', node) in execution order, with
    compound statements that contain labels flattened (Duff-style case labels inside another
    case's block are legal C++)"""
    out = []

    def contains_label(n):
        if n is None:
            return False
        if n.get("k") in ("CaseStmt", "DefaultStmt"):
            return True
        if n.get("k") == "SwitchStmt":
            return False
        return any(contains_label(c) for c in (n.get("c") or []) if c is not None)

    def rec(n):
        if n is None:
            return
        k = n.get("k")
        if k == "CaseStmt":
            v = sc(n["c"][0])
            out.append(("label", v.get("v") if v.get("k") == "IntegerLiteral" else (n["cv"] if "cv" in n else v.get("n", "?")), n))
            rec(n["c"][1])
        elif k == "DefaultStmt":
            out.append(("label", "default", n))
            rec(n["c"][0])
        elif k == "CompoundStmt" and contains_label(n):
            for c in n["c"]:
                rec(c)
        elif k == "CompoundStmt":
            # a plain block: keep its statements in sequence (break inside ends the case)
            for c in n["c"]:
                rec(c)
        else:
            out.append(("stmt", n))

    rec(body)
    return out


def switch_cases(sw):
    """{label value: [statements executed from that label up to break/return]} for a SwitchStmt;
    fall-through runs into the next label's statements"""
    if sw.get("ifchain") is not None:
        return dict(sw["ifchain"])
    seq = flatten_switch_body(sw["c"][1])
    cases = {}
    for i, item in enumerate(seq):
        if item[0] != "label":
            continue
        stmts = []
        for j in range(i + 1, len(seq)):
            it = seq[j]
            if it[0] == "label":
                continue
            s = it[1]
            if s.get("k") == "BreakStmt":
                break
            stmts.append(s)
            if s.get("k") in ("ReturnStmt",):
                break
        cases[item[1]] = stmts
    return cases


def switch_on(P, F, sw):
    """rendering of the switch condition"""
    return norm.render(P, sw["c"][0])


def calls_in(F, node, pred=None):
    for n in F.walk(node):
        if n.get("k") in ("CallExpr", "CXXMemberCallExpr", "CXXOperatorCallExpr", "CXXConstructExpr", "CXXTemporaryObjectExpr"):
            if pred is None or pred(n):
                yield n


def member_call(P, n, name=None):
    """(receiver expr, method name, args) for a CXXMemberCallExpr, else None"""
    n = sc(n)
    if n is None or n.get("k") != "CXXMemberCallExpr":
        return None
    me = n["c"][0]
    if me.get("k") != "MemberExpr":
        return None
    if name is not None and me.get("n") != name:
        return None
    return (me.get("c") or [None])[0], me.get("n"), n["c"][1:]


def subscript(n):
    """(base, index) of X[i] in any spelling, else None"""
    n = sc(n)
    if n is None:
        return None
    if n.get("k") == "CXXOperatorCallExpr" and n.get("op") == "[]":
        return n["c"][0], n["c"][1]
    if n.get("k") == "ArraySubscriptExpr":
        return n["c"][0], n["c"][1]
    if n.get("k") == "CXXMemberCallExpr" and n["c"][0].get("n") == "at":
        return n["c"][0]["c"][0], n["c"][1]
    return None


def enclosing(F, node, kinds):
    for a in F.ancestors(node):
        if a.get("k") in kinds:
            return a
    return None


def stmts_of(body):
    if body is None:
        return []
    if body.get("k") == "CompoundStmt":
        return [c for c in body["c"] if c is not None]
    return [body]


def missing_anchors(P, F, names):
    """names (of locals, parameters or fields) a text-shaped rule is written over that no longer occur in F.
    A rule that compares rendered statements must call this first and answer `unknown` (analysis broken, exit 2),
    never `violation`, when an anchor was renamed: a rename changes no behaviour."""
    have = set()
    for p in F.params:
        have.add(P.d(p).get("n"))
    for n in F.walk():
        k = n.get("k")
        if k in ("VarDecl", "DecompositionDecl", "BindingDecl"):
            have.add(n.get("n"))
        elif k in ("DeclRefExpr", "MemberExpr"):
            have.add(n.get("n"))
    return sorted(set(names) - have)


def resolve_alias(P, F, n):
    """look through reference / const naming locals: the node a name stands for"""
    from . import norm
    nl = norm.naming_locals(P, F)
    n = sc(n)
    seen = 0
    while n is not None and n.get("k") == "DeclRefExpr" and n.get("r") in nl.vals and seen < 10:
        n = sc(nl.vals[n["r"]])
        seen += 1
    return n


def local_lambda_calls(P, F, node):
    """calls, inside `node`, of lambdas declared as locals of F whose body is more than one return statement (those are not
    looked through by the naming-local machinery): [(call node, lambda variable name)]"""
    lam_vars = {}
    for v in F.walk():
        if v.get("k") == "VarDecl" and v.get("c"):
            i0 = v["c"][0]
            while i0 is not None and i0.get("k") in ("ExprWithCleanups", "MaterializeTemporaryExpr", "CXXBindTemporaryExpr", "CXXConstructExpr", "ImplicitCastExpr") and i0.get("c"):
                kids = [x for x in i0["c"] if x is not None]
                if len(kids) != 1:
                    break
                i0 = kids[0]
            if i0 is not None and i0.get("k") == "LambdaExpr":
                op = P.funcs.get(i0.get("lam"))
                single = False
                if op is not None and op.body is not None:
                    st = [x for x in (op.body.get("c") or []) if x is not None] if op.body.get("k") == "CompoundStmt" else [op.body]
                    single = len(st) == 1 and st[0].get("k") == "ReturnStmt"
                if not single:
                    lam_vars[v["r"]] = v.get("n")
    out = []
    for n in F.walk(node):
        if n.get("k") == "CXXOperatorCallExpr" and n.get("op") == "()" and n.get("c"):
            kids = [x for x in n["c"] if x is not None]
            for x in kids[:2]:
                x0 = sc(x)
                if x0 is not None and x0.get("k") == "DeclRefExpr" and x0.get("r") in lam_vars:
                    out.append((n, lam_vars[x0["r"]]))
                    break
    return out
