#!/bin/sh
# offline build of the fact extractor (clang 14 libTooling, system LLVM)
set -e
cd "$(dirname "$0")"
mkdir -p bin evidence
if [ ! -x bin/wbast ] || [ tool/wbast.cc -nt bin/wbast ]; then
  clang++ $(llvm-config-14 --cxxflags) -fno-rtti -O1 tool/wbast.cc -o bin/wbast \
    /usr/lib/llvm-14/lib/libclang-cpp.so.14 /usr/lib/llvm-14/lib/libLLVM-14.so
fi
echo "wbast built"
