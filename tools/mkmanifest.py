#!/usr/bin/env python3
"""Regenerate /verif/MANIFEST.json from the table below (kept in one place so that the claimed
checks, their technique names and the not_applicable list stay consistent)."""
import json
import os

HERE = os.path.dirname(os.path.dirname(os.path.abspath(__file__)))

TRUST = ("trusted: clang 14 front end (name/overload resolution, CFG), the wbast extractor, the sa/ rule engine, the "
         "signature model of library callees; the check decides the stated structural facts (necessary conditions of "
         "the behaviour), not run-time values")

CLAIMS = {
    "C01": ("static effect analysis + symbolic layout agreement",
            "PURE (no state outlives a query), LAYOUT L1-L3 (width tables, slot bookkeeping, per-feature block confinement, "
            "grains (un)packing), XDEP (no dependence on the request list as a whole), FWD (single-property members), 2D "
            "wrapper bookkeeping, XDEP.carried (no pre-loop local carries a value from one property of the request to the next), PURE.io (no "
            "file/environment access), C/C++ interface wrappers as additional roots: structural facts that entail history/batching "
            "independence and the announced layout",
            "§3.1-3.3, §3.9, §4 C01"),
    "C10": ("twin-block and sibling cross-check + interpolation-shape analysis + table provenance",
            "kind twin blocks of the segment parser and section defaults (identical after kind substitution, same origin, order kept), "
            "slab/fault siblings, every section interpolation is cur + f*(next-cur) of the neighbouring section (features and kernel), "
            "per-section model loops, provenance/sizing of per-section tables, guarded section override; down-dip blend by the segment fraction and "
            "interpolated (never feature-wide) values handed to the models (I1.segment)",
            "§3.5, §3.6, §4 C10"),
    "C11": ("sign-domain abstract interpretation + computer-algebra proof of the interpolant + merge-structure analysis",
            "approx reflexive over {-,0,+} (known finding: false at 0), corner/user point merge structure (same-point overwrite at "
            "pair_i/2, append of (value,x,y), degree conversion), symbolic proof that the in-triangle interpolant is the affine function "
            "through the triangle's vertices, acceptance region = closed triangle + slack proportional to machine epsilon, vertex pairing, "
            "min/max over all values, full-scan fallback, consumers pair each local depth with its own surface; the default of the point-list form of every min/max depth entry equals the "
            "default of its scalar form (SCHEMA.depth-defaults). Delaunay triangulation is not decided",
            "§3.13, §3.6, §4 C11"),
    "C12": ("validation-discipline analysis (size facts vs. element accesses, dominance of input gates)",
            "A2: every element access to an input-derived member vector on the query path is covered by a release-active size "
            "fact (schema minItems / WBAssertThrow / resize), A2.store: indexed stores into member vectors inside counting loops are covered by the size given in the same function; A1: relied-upon length checks are not debug-only; A3/A4: no "
            "constant-true WBAssertThrow, string dispatch ends in a release-active rejection and agrees with the schema; G3: JSON "
            "parse, is-object and schema gates dominate every normal return of Parameters::initialize, version check first; A5; SCHEMA "
            "(required/closed/keys/writers: no schema path stored twice, points declare minItems=maxItems=dim); JSON.order (no member "
            "picked by position); COPY.members (hand-written copy constructors copy member m from other.m: nested schema types are clones)",
            "§3.7, §3.4, §4 C12"),
    "C13": ("loop-shape and recursion-table analysis + sign analysis of denominators over CFG control dependence",
            "LOOP: every loop on the query path has a bounded shape, the three call-graph cycles match the frozen recursion "
            "table (kd-tree shrinking ranges, Bezier one-shot retry, stratified tian2019 re-entry); A5: only std::exception "
            "types are thrown; shape of guards: two-sided NaN-absorbing clamp before acos, the 2D wrapper's walk over the result uses the producer's widths, the section index is the one the trench curve reported (K2.section-index), release-active arity checks of per-section and "
            "input-indexed tables, sibling models agree on their guards; DIV.guard: in the model functions no floating-point division has a "
            "denominator that vanishes at depth zero / at the planet's centre / on the ridge / on the slab surface or trench line / where a laterally "
            "varying bound reaches zero or two of them coincide, unless a controlling condition excludes it (model functions and the gravity / "
            "coordinate-system models reachable from a query); while loops of the wrap shape |v| OP B, v -= copysign(S, v) with their termination condition. "
            "Finiteness of values in general is not decided",
            "§3.8, §4 C13"),
    "C14": ("static effect/alias analysis + parallel-loop discipline",
            "PURE over the query path (no shared write => no data race) and PAR on gwb-grid's parallel_for (disjoint affine "
            "element stores, chained ranges, join post-dominates every launch and is guarded by joinable() because launches are conditional)",
            "§3.1, §3.11, §4 C14"),
    "C15": ("entropy-discipline lint + effect analysis + computer-algebra identity",
            "RNG (banned entropy sources, every draw on the owning world's engine, engine written only from the seed argument "
            "and the file's seed entry), PURE (the draw is the only state a query touches), same-index rule for per-composition "
            "tables, size-normalisation shape under exactly its flag, single shared bound broadcast with its value; QUAT: orientations blended "
            "between two sections are mat3_cast(slerp(quat_cast, quat_cast, f)), mat3_cast is a proper rotation on unit quaternions, quat_cast "
            "inverts it on all four branches, slerp stays on the unit sphere (identity) and its linear short cut is of rounding size; Euler-angle "
            "basis matrices are proper rotations for all angles, the 3x3 product is the matrix product; thorough: "
            "symbolic proof that the generated matrices satisfy R*R^T=I, det R=+1; producer, walker and 2D wrapper agree on the width of the grains block (LAYOUT.L1)",
            "§3.12, §3.6, §4 C15"),
    "C16": ("forwarding (argument provenance) analysis",
            "FWD over the extern \"C\" API and WorldBuilderWrapper: callee, identity argument forms in declared order (whole strings, value-preserving parameter types), result "
            "path, handle round trip, new/delete pairing; effect analysis of the wrappers (no state of their own); no try block "
            "(a refusal reaches the caller)",
            "§3.9, §4 C16"),
}

CLAIMS.update({
    "C17": ("symbolic layout agreement (polynomial offsets) + index-guard dominance",
            "LAYOUT L4 for gwb-dat: request list vs library width table vs printed offsets vs header column count for dim 2 "
            "and 3 (polynomials in compositions, grain compositions, grains), one request block per printed column group; row query argument provenance; every literal "
            "token index guarded by a size test; DAT.input: lines tokenised unmodified, option lines order-independent, only empty and "
            "'#' rows skipped before the arity check, 2D refusal of 'convert spherical' before any output. Known findings: 2D offsets, 3D header",
            "§3.2, §3.4, §4 C17"),
    "C18": ("symbolic layout agreement + provenance + parallel-loop discipline",
            "LAYOUT L4 for gwb-grid (output offsets -> data_set slots, dataSetInfo, filter_vtu_mesh literals), same-index node "
            "provenance, PAR on the parallel callables and the pool, structure of the mesh filter (both per-cell loops cover all vertices), "
            "base64 length of appended blocks = 4*ceil(n/3) (proof over residues), zlib block structure ceil(n/b) blocks / last block 1..b (residues), the `no feature` guard of the tag scan can fire, Cartesian grid: node positions and VTK cell "
            "connectivity as closed forms of the loop indices; sphere grid: bilinear block patch (partition of unity, corners, edges) and "
            "projection R*p/|p|, every layer from a fresh copy of the unit shell at radius inner + (outer-inner) i/n; per-tag files from a one-hot mask that is fresh in every iteration; the bound checks of the chunk grid imply |latitude| <= 90 and span <= 360 degrees and none is vacuous (GRID.bounds, linear program), chunk, annulus and sphere all refuse inner >= outer radius (GRID.radii); chunk grid: (lon, lat, r) lattice, conversion to Cartesian coordinates and connectivity; annulus grid: node circles and "
            "quads with the wrap-around column. The uncompressed numbering and the merging of sphere blocks are decided only for their depth field",
            "§3.2, §3.11, §4 C18"),
})

CLAIMS.update({
    "C02": ("control-dependence (extent guard) + effect analysis + operation algebra + fold-shape analysis",
            "fold order (single forward loop, list built in file order, no other writer), G1 (every feature write under one extent test "
            "that consults geometry only) which with PURE entails that a non-covering feature has no influence, operation algebra and "
            "string mapping, R1 (every model honours its operation; new value independent of the painted value), per-kind model folds, "
            "FOLD.seed (painted values are only copied element-for-element or handed to models; known finding: z velocity seed of slab "
            "and fault), FOLD.blend (the blend of two equal section values is that value, so a slab/fault without models of a kind hands the "
            "painted value on; known finding: grain orientations pass through quat_cast/slerp/mat3_cast), unlisted compositions are cleared "
            "on every path inside a replace model's range, TAG.unique (tags interned by full string equality)",
            "§3.4, §3.1, §3.6, §4 C02"),
    "C03": ("algebraic normal form of the initial blocks + key provenance + control dependence",
            "background blocks (adiabat Tp*exp(alpha*g*depth/cp), 0, zeros, -1, (0,0,0)), constants assigned only from the entry of their own "
            "name, G1, forced surface temperature emitted under exactly its condition, never handed to features, independent of batching; slab/fault thickness and "
            "truncation interpolated between the current and the next section only (I1), slab and fault agree line by line (SIB.line)",
            "§3.6, §3.3, §3.4, §4 C03"),
    "C04": ("control-dependence + algebraic normal forms (plume bracket, shorter-arc angle, ellipse) + alias-wrapper shape",
            "closed depth intervals and polygon-test arguments in the extent tests, shape and exclusive use of the longitude-alias "
            "wrappers, plume cross-section interpolation (own table, one fraction, front/back outside), shorter-arc angle interpolation decided region by "
            "region of a2-a1 (conditions piecewise linear, fmod modelled), ellipse equation, plume head, depth-surface pairing and value-at-points merge/interpolation, closed twin-symmetric "
            "on-segment test of the polygon routine and the sign/direction of its winding-number update, no cache outliving a query (PURE). "
            "Floating-point exactness of the polygon test is not decided",
            "§3.4, §3.6, §4 C04"),
    "C05": ("sibling cross-check in normal form + model-level dataflow rules + computer-algebra comparison of simple closed forms",
            "SIB over all replicated model classes with a frozen table of explained differences, R1, G4/G2 (inclusive two-sided range "
            "guard), N1 (sentinel overrides: tested variable = replaced variable, world's constant / adiabat, no dead override), closed "
            "forms of uniform/adiabatic/linear, cooling models, Gaussian plume (incl. shorter-arc angle interpolation and ellipse equation), smooth composition blend; local depth bounds used once "
            "defined (DEP.surfaces.local); distance and velocity of the cooling age from one ridge candidate; one source per physical parameter "
            "inside a model (PARAM.source); Chapman geotherm T_top + (q/k) dz - (A/2k) dz^2 from the clipped top; the slab plate model as McKenzie's series (term and final expression); the tian2019 polynomials as one coefficient table per "
            "polynomial, each power used once (EXPR.poly). "
            "The mass-conserving recipe and the tian2019 coefficient values are not decided",
            "§3.5, §3.6, §4 C05"),
    "C06": ("normalised membership relations + call-site agreement + sibling cross-check + symbolic evaluation of the segment step",
            "slab/fault membership predicates over (distance from plane, distance along plane), inclusive depth gate, agreement of the "
            "two call sites of the curved-planes kernel and of the starting radius, unswapped hand-over up to World::distance_to_plane, "
            "per-section tables read only through cur+f*(next-cur) inside the kernel, slab/fault sibling table; SEG.line / SEG.arc: one "
            "segment step of the slab-frame kernel equals the planar construction (straight line: computer-algebra identity; circular arc: "
            "14 symbolic paths incl. probes just outside the rounding guards, 40-digit zero tests), SEG.frame: rotated axis = u(u.v)+-u x v, "
            "common origin of the projections; I1.segment: thickness / truncation between the two ends of a segment follow the fraction along the "
            "segment (dependence of the inside test on both fractions). Spherical corrections and the convergence of the Newton search are not decided",
            "§3.5, §3.6, §3.9, §4 C06"),
    "C07": ("dependence-set analysis of culling bounds + structural coverage rules",
            "DEP: every depth cut-off / bounding box depends on all parameters the exact extent depends on (min depth, segment lengths "
            "and thicknesses, coordinates, radius), the depth cut-off is >= min depth + L + T with derived fields resolved through parse_entries, the Cartesian box buffer is >= L + T, spherical buffer factor > 1, both longitude buffers of the spherical box dominate b/cos(lat) at both "
            "trench ends (DEP.bbox-lon), max-accumulators cover all sections x segments x both "
            "components, depth-surface pairing (min<-minimum, max<-maximum, same side everywhere), full-scan fallback before "
            "Surface::local_value throws (every triangle, point and alias; skip flags set and read through the same index member; vertices, coefficients and reported index of one triangle test agree), who-may-call of alias-unaware implementations. Numeric sufficiency of the buffer near the poles "
            "and kd-tree pruning arithmetic are not decided",
            "§3.10, §3.4, §4 C07"),
    "C08": ("who-may-call + alias-wrapper shape + twin-block comparison + shift-degree abstract interpretation",
            "ONLY the clause 'a point described with longitude L or L+-360 gets the same answer': shape and exclusive use of the alias "
            "wrappers (every exit of the spherical branch tries both aliases), frozen list of alias-aware sites, point/alias twin blocks of "
            "the ridge-distance routine identical under 1->2, alias longitude L+-2*pi per half-range at every alias site (ALIAS.shift), wrappers as truth tables over their paths, "
            "periodic start value of the spherical Bezier search; plus translation invariance of the Cartesian polygon, "
            "signed-distance and ellipse kernels by a shift-degree abstract interpretation (SHIFT.translation) and the closed forms of the "
            "Point distance kernels; the culling box of slab/fault spans the extreme trench coordinates of each component (DEP.bbox-extremes); the side of a transform fault is the sign of (b - a) x (p - a) for both tested points (EXPR.side-of-line). "
            "Invariance of the remaining kernels (real arithmetic) is not decided",
            "§3.5, §4 C08"),
    "C09": ("algebraic normal form of the cross-section map + layout agreement + dominance of the refusal",
            "direction vector, Cartesian and spherical 2D->3D point map, degree conversion, release-active refusal as first statement, "
            "2D slot walker vs library width table, velocity projection evaluated in statement order and unconditional, stored cross "
            "section written once by its only writer, conversion factor applied exactly in the spherical case, no try block in a 2D entry point, 2D single-property forwarding",
            "§3.6, §3.2, §3.4, §4 C09"),
})

CLAIMS.update({
    "C19": ("computer-algebra identity + interval check + structural rule",
            "Structural/algebraic clauses only: the closest-point search's cubic coefficients (vector and scalar form) expand to the Bernstein form of "
            "BezierCurve::operator() and the reported point is that cubic at the reported parameter; the acos clamp of the great-circle "
            "distance is the identity on [-1,1] and the value under it is the cosine of the central angle (callee evaluated with its arguments); kd-tree search structure (near child unconditional, far child pruned on the split-axis "
            "difference, same mid in build and search, both search functions, Euclidean distance of both coordinates); every section of the trench "
            "curve is examined by the closest-point search; Cartesian<->spherical round trip as an identity and on every path (all octants, both polar caps); closed forms "
            "of the Point distance kernels; closed, twin-symmetric on-segment test of the polygon routine; the Bezier result record is "
            "stored as a whole; NEWTON.objective: the value the closest-point search compares is the squared / haversine distance between the check point "
            "and the point it reports, its Newton step is H'/|H''| of that H, the line search compares H, every curve part reaches the accept test. "
            "Nearest-ness of the kd search, polygon exactness beyond the boundary test, convergence of the Newton iteration to the global minimum are not decided",
            "§3.6, §3.13, §4 C19"),
})

CLAIMS.update({
    "C20": ("computer algebra (substitution, limit, derivative sign) on closed forms extracted from the code",
            "ONLY two clauses: (B) boundary attainment of the half-space (T(0)=T_top, T(inf)=T_bottom), plate and constant-age plate "
            "models (T(0)=T_top, T(max depth)=T_bottom, every series term vanishes there) and of the linear models (by their verified "
            "form); (E) half space: convex combination with weight erfc(u>=0), dT/d(depth) and dT/d(age) of the documented sign. Bounds "
            "and monotonicity of the 100-term series and the slab plate model are not decided; mass-conserving slab: the two sides of the profile "
            "(Gaussian above the coldest surface between T_min and the incoming value, entered only for T_ >= T_min; conductive side from T_min to the ambient value, "
            "both reference models) - used only under `minimum < ambient` of its own end members - its minimum-temperature construction is not decided; plus the necessary "
            "conditions that features hand the local depth range to their models, that a model uses one value per physical parameter "
            "(PARAM.source) and that nothing is cached between queries",
            "§4 C20, §10.8"),
})

NOT_APPLICABLE = {
}


def main():
    checks = []
    for pid in sorted(CLAIMS):
        tech, text, ref = CLAIMS[pid]
        checks.append({
            "property_id": pid,
            "quick_cmd": "./check %s --tier quick" % pid,
            "thorough_cmd": "./check %s --tier thorough" % pid,
            "evidence_file": "evidence/%s.json" % pid,
            "replay_cmd_template": "cat {path}",
            "engine": "wbast+sa",
            "level_claimed": {"category": "other", "text": text, "design_ref": "DESIGN.md " + ref},
            "level_note": TRUST,
            "technique": tech,
        })
    all_ids = ["C%02d" % i for i in range(1, 21)]
    na = [{"property_id": p, "reason": NOT_APPLICABLE[p]} for p in sorted(NOT_APPLICABLE)]
    pending = [p for p in all_ids if p not in CLAIMS and p not in NOT_APPLICABLE]
    for p in pending:
        na.append({"property_id": p, "reason": "not claimed yet: check under construction (see DESIGN.md §4 for the planned static rules)"})
    m = {
        "version": 1,
        "setup_cmd": "./setup.sh",
        "hooks": {
            "guard": "WB_VERIF",
            "enable": "no hooks are needed: every rule reads unmodified source (the extractor passes -DWB_VERIF for uniformity)",
            "baseline_off_cmd": "cmake --build /repo/_build && ctest --test-dir /repo/_build -j8 --timeout 900",
            "source_commits": [],
            "add_only": True,
        },
        "engines": [{
            "name": "wbast+sa", "path": "tool/wbast.cc, sa/",
            "serves_properties": sorted(CLAIMS),
            "kind_free_text": "clang-14 libTooling fact extractor (resolved AST, clang CFG, macro table; release and debug "
                              "views) + Python rule engine: effect/alias analysis over the CHA call graph, symbolic "
                              "layout algebra (sympy as a single-expression normaliser), dominance/control dependence, "
                              "forwarding/provenance, sibling cross-checks",
        }],
        "checks": checks,
        "not_applicable": sorted(na, key=lambda x: x["property_id"]),
        "notes": "exit codes: 0 held / 1 VIOLATION / 2 analysis broken (anchor vanished, instance floor missed, unknown idiom). "
                 "known_findings.json lists recorded and repaired defects. selftest/run.py applies mutants and neutral edits "
                 "to scratch copies.",
    }
    with open(os.path.join(HERE, "MANIFEST.json"), "w") as f:
        json.dump(m, f, indent=1)
    print("MANIFEST.json: %d checks, %d not_applicable" % (len(checks), len(na)))


if __name__ == "__main__":
    main()
