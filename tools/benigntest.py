#!/usr/bin/env python3
"""tools/benigntest.py <dir with k/patch.diff ...> [-j J]
Run all 20 quick checks against each behaviour-preserving patch (scratch copies, removed afterwards) and list every
check that does not exit 0."""
import glob, os, subprocess, sys
from concurrent.futures import ThreadPoolExecutor
VERIF = os.path.dirname(os.path.dirname(os.path.abspath(__file__)))
PIDS = ["C%02d" % i for i in range(1, 21)]
def one(p):
    r = subprocess.run([sys.executable, os.path.join(VERIF, "tools", "seedtest.py"), p] + PIDS, stdout=subprocess.PIPE, stderr=subprocess.STDOUT, text=True)
    bad = []
    cur = None
    for l in r.stdout.splitlines():
        if l.startswith("== "):
            cur = l
        elif l.startswith(("  violation", "ANALYSIS-BROKEN", "PATCH DOES NOT")) and cur and " rc=0" not in cur:
            bad.append((cur, l[:330]))
        elif l.startswith("PATCH DOES NOT"):
            bad.append(("patch", l))
    return p, bad
def main():
    args = [a for a in sys.argv[1:] if not a.startswith("-")]
    jobs = 4
    if "-j" in sys.argv:
        jobs = int(sys.argv[sys.argv.index("-j") + 1]); args = [a for a in args if a != str(jobs)]
    patches = []
    for a in args:
        patches += sorted(glob.glob(os.path.join(a, "*", "patch.diff")))
    n_bad = 0
    with ThreadPoolExecutor(max_workers=jobs) as ex:
        for p, bad in ex.map(one, patches):
            seen = set()
            print(("FLAGGED " if bad else "silent  ") + p)
            for cur, l in bad:
                if (cur, l[:120]) in seen:
                    continue
                seen.add((cur, l[:120]))
                print("      %s %s" % (cur, l))
            n_bad += bool(bad)
    print("benigntest: %d of %d patches flagged" % (n_bad, len(patches)))
main()
