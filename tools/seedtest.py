#!/usr/bin/env python3
"""tools/seedtest.py <patch.diff> <property id> [more ids...]  [--tier thorough]
Apply a patch to a scratch copy of /repo's sources (outside /repo and /verif), run the checks against the
copy, print their verdict lines, remove the copy."""
import os, shutil, subprocess, sys, tempfile
VERIF = os.path.dirname(os.path.dirname(os.path.abspath(__file__)))
def main():
    args = [a for a in sys.argv[1:] if not a.startswith("--")]
    tier = "thorough" if "--tier=thorough" in sys.argv or "--thorough" in sys.argv else "quick"
    patch, pids = os.path.abspath(args[0]), args[1:]
    base = tempfile.mkdtemp(prefix="wb_seedtest_")
    d = os.path.join(base, "repo")
    os.makedirs(d)
    try:
        for sub in ("source", "include"):
            shutil.copytree(os.path.join("/repo", sub), os.path.join(d, sub))
        for f in ("VERSION", "CMakeLists.txt"):
            shutil.copy(os.path.join("/repo", f), os.path.join(d, f))
        p = subprocess.run(["patch", "-p1", "-s", "-i", patch], cwd=d, stdout=subprocess.PIPE, stderr=subprocess.STDOUT, text=True)
        if p.returncode != 0:
            print("PATCH DOES NOT APPLY:\n" + p.stdout)
            return 3
        env = dict(os.environ, WB_REPO=d, WB_CACHE=os.path.join(base, "cache"), WB_EVIDENCE_DIR=os.path.join(base, "ev"))
        rc_all = 0
        for pid in pids:
            r = subprocess.run([os.path.join(VERIF, "check"), pid, "--tier", tier], cwd=VERIF, env=env, stdout=subprocess.PIPE, stderr=subprocess.STDOUT, text=True)
            lines = [l for l in r.stdout.splitlines() if l.startswith(("  violation", "VIOLATION", "ANALYSIS-BROKEN", "KNOWN")) or "rule instances" in l]
            print("== %s rc=%d" % (pid, r.returncode))
            for l in lines:
                print(l[:400])
            rc_all = max(rc_all, r.returncode)
        return rc_all
    finally:
        shutil.rmtree(base, ignore_errors=True)
if __name__ == "__main__":
    sys.exit(main())
