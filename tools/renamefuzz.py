#!/usr/bin/env python3-vt
"""tools/renamefuzz.py [N] [seed] [-j J]
False-alarm probe: N times, rename one local variable (or parameter) of one function of the library / the tools
consistently within that function (a behaviour-preserving edit), apply it to a scratch copy outside /repo and /verif,
run all 20 quick checks against the copy and report every check that does not exit 0.
A VIOLATION (exit 1) on such a copy is a false alarm of the machinery; exit 2 (analysis broken) means a rule is written
over that name and declines to judge.  Scratch copies are removed."""
import json
import os
import random
import re
import shutil
import subprocess
import sys
import tempfile
from concurrent.futures import ThreadPoolExecutor

VERIF = os.path.dirname(os.path.dirname(os.path.abspath(__file__)))
sys.path.insert(0, VERIF)
PIDS = ["C%02d" % i for i in range(1, 21)]


def candidates():
    from sa import facts
    P = facts.load("release")
    out = []
    seen = set()
    for F in P.funcs.values():
        if F.body is None or not F.file.startswith("/repo/") or "/rapidjson/" in F.file or "/vtu11/" in F.file or "/glm/" in F.file:
            continue
        lines = [n.get("l") for n in F.walk() if n.get("l")]
        if not lines:
            continue
        lo, hi = min(lines), max(lines)
        try:
            lo = min(lo, int(F.loc.rsplit(":", 1)[1]))
        except Exception:
            pass
        names = set()
        for n in F.walk():
            if n.get("k") == "VarDecl" and n.get("n") and len(n["n"]) > 1 and not n["n"].startswith("__"):
                names.add(n["n"])
        for p in F.params:
            nm = P.d(p).get("n")
            if nm and len(nm) > 1:
                names.add(nm)
        for nm in sorted(names):
            key = (F.file, lo, nm)
            if key in seen:
                continue
            seen.add(key)
            out.append(dict(file=F.file, lo=lo, hi=hi, name=nm, func=F.qn))
    return out


def run_one(c):
    base = tempfile.mkdtemp(prefix="wb_renamefuzz_")
    d = os.path.join(base, "repo")
    os.makedirs(d)
    try:
        for sub in ("source", "include"):
            shutil.copytree(os.path.join("/repo", sub), os.path.join(d, sub))
        for f in ("VERSION", "CMakeLists.txt"):
            shutil.copy(os.path.join("/repo", f), os.path.join(d, f))
        path = os.path.join(d, os.path.relpath(c["file"], "/repo"))
        src = open(path).read().split("\n")
        new = c["name"] + "_rn"
        pat = re.compile(r"(?<![\w.>:])%s\b(?!\s*\()" % re.escape(c["name"]))
        changed = 0
        # parameters are declared a few lines above the first body line
        for i in range(max(0, c["lo"] - 12), min(len(src), c["hi"] + 1)):
            # never inside string literals (a key such as "min depth" is data, not a name)
            parts = re.split(r'("(?:[^"\\]|\\.)*")', src[i])
            line2 = "".join(pt if (j_ % 2 == 1) else pat.sub(new, pt) for j_, pt in enumerate(parts))
            if line2 != src[i]:
                changed += 1
                src[i] = line2
        if not changed:
            return dict(c, status="no-op")
        open(path, "w").write("\n".join(src))
        env = dict(os.environ, WB_REPO=d, WB_CACHE=os.path.join(base, "cache"), WB_EVIDENCE_DIR=os.path.join(base, "ev"), WB_SELFTEST="1")
        res = {}
        for pid in PIDS:
            r = subprocess.run([os.path.join(VERIF, "check"), pid, "--tier", "quick"], cwd=VERIF, env=env, stdout=subprocess.PIPE, stderr=subprocess.STDOUT, text=True)
            if r.returncode != 0:
                lines = [l for l in r.stdout.splitlines() if l.startswith(("  violation", "ANALYSIS-BROKEN"))]
                if any("parse" in l or "error:" in l for l in lines) and pid == "C01":
                    return dict(c, status="does-not-parse", detail=lines[:2])
                res[pid] = dict(rc=r.returncode, lines=[l[:300] for l in lines[:3]])
        return dict(c, status="ok" if not res else "flagged", flagged=res, changed_lines=changed)
    finally:
        shutil.rmtree(base, ignore_errors=True)


def main():
    args = [a for a in sys.argv[1:] if not a.startswith("-")]
    jobs = 4
    if "-j" in sys.argv:
        jobs = int(sys.argv[sys.argv.index("-j") + 1])
        args = [a for a in args if a != str(jobs)]
    n = int(args[0]) if args else 20
    seed = int(args[1]) if len(args) > 1 else 1
    cands = candidates()
    random.Random(seed).shuffle(cands)
    cands = cands[:n]
    print("renamefuzz: %d renames (seed %d)" % (len(cands), seed))
    n_alarm = n_broken = 0
    with ThreadPoolExecutor(max_workers=jobs) as ex:
        for r in ex.map(run_one, cands):
            tag = r["status"]
            if tag == "flagged":
                worst = max(v["rc"] for v in r["flagged"].values())
                if worst == 1 or any(v["rc"] == 1 for v in r["flagged"].values()):
                    n_alarm += 1
                    tag = "FALSE-ALARM"
                else:
                    n_broken += 1
                    tag = "declined"
            print("%-12s %s :: %s in %s" % (tag, os.path.relpath(r["file"], "/repo"), r["name"], r["func"][-60:]))
            if r["status"] == "flagged":
                for pid, v in r["flagged"].items():
                    print("     %s rc=%d %s" % (pid, v["rc"], (v["lines"][0] if v["lines"] else "")[:260]))
            elif r["status"] == "does-not-parse":
                print("     (rename broke the build: %s)" % r.get("detail"))
    print("renamefuzz: %d false alarms, %d declined (exit 2), of %d" % (n_alarm, n_broken, len(cands)))
    return 1 if n_alarm else 0


if __name__ == "__main__":
    sys.exit(main())
