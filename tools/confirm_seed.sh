#!/bin/bash
# tools/confirm_seed.sh <seed OUT dir> <name>   -- confirm a seeded change in the scratch worktree /tmp/wt_fix:
# applies, builds, full ctest (only grid_fault_edge_limits may fail), demo fails with / passes without the change.
# On success copies patch.diff, demo/, meta.json to /verif/seeded/<name>/ and appends the confirmation to meta.json.
set -u
SRC=$1; NAME=$2; WT=/tmp/wt_fix
if [ ! -d $WT ]; then
  # the scratch worktree is created on demand (and may be removed again with `git -C /repo worktree remove --force /tmp/wt_fix`)
  git -C /repo worktree add --detach $WT HEAD -q || exit 2
  ( cd $WT && cmake -G Ninja -B _build -DCMAKE_BUILD_TYPE=RelWithDebInfo -DCMAKE_CXX_FLAGS=-Wno-error -DWB_ENABLE_PYTHON=OFF > /dev/null ) || exit 2
fi
cd $WT || exit 2
git reset -q --hard $(git -C /repo rev-parse HEAD)
git apply --check $SRC/patch.diff || { echo "CONFIRM-FAIL patch does not apply"; exit 1; }
git apply $SRC/patch.diff
cmake --build _build -j16 > /tmp/confirm_build.log 2>&1 || { echo "CONFIRM-FAIL does not build"; tail -5 /tmp/confirm_build.log; git reset -q --hard; exit 1; }
ctest --test-dir _build -j16 --timeout 900 > /tmp/confirm_ctest.log 2>&1
FAILED=$(grep -E "^\s+[0-9]+ - " /tmp/confirm_ctest.log | awk '{print $3}' | sort | tr '\n' ' ')
echo "failed tests with change: [$FAILED]"
if [ "$FAILED" != "grid_fault_edge_limits " ]; then echo "CONFIRM-FAIL suite differs from baseline"; git reset -q --hard; cmake --build _build -j16 >/dev/null 2>&1; exit 1; fi
( cd $SRC/demo && bash run.sh $WT ) > /tmp/confirm_demo_with.log 2>&1; RC_WITH=$?
git reset -q --hard
cmake --build _build -j16 > /tmp/confirm_build2.log 2>&1
( cd $SRC/demo && bash run.sh $WT ) > /tmp/confirm_demo_without.log 2>&1; RC_WITHOUT=$?
echo "demo rc with change: $RC_WITH (tail: $(tail -1 /tmp/confirm_demo_with.log | cut -c1-150))"
echo "demo rc without change: $RC_WITHOUT (tail: $(tail -1 /tmp/confirm_demo_without.log | cut -c1-150))"
if [ $RC_WITH -eq 0 ] || [ $RC_WITHOUT -ne 0 ]; then echo "CONFIRM-FAIL demo does not discriminate"; exit 1; fi
mkdir -p /verif/seeded/$NAME
cp $SRC/patch.diff /verif/seeded/$NAME/patch.diff
rm -rf /verif/seeded/$NAME/demo; cp -r $SRC/demo /verif/seeded/$NAME/demo
find /verif/seeded/$NAME/demo -type f \( -perm -u+x -a ! -name "*.sh" \) -size +100k -delete 2>/dev/null
python3 - "$SRC/meta.json" "/verif/seeded/$NAME/meta.json" "$RC_WITH" "$RC_WITHOUT" <<'PY'
import json,sys
try: m=json.load(open(sys.argv[1]))
except Exception as e: m={"note":"agent meta.json unreadable: %s"%e}
m["confirmed_by_main_session"]={"worktree":"/tmp/wt_fix (scratch, reset afterwards)","build":"cmake --build _build -j16","suite":"ctest --test-dir _build -j16: only grid_fault_edge_limits fails (as in the baseline)","demo_rc_with_change":int(sys.argv[3]),"demo_rc_without_change":int(sys.argv[4])}
json.dump(m,open(sys.argv[2],"w"),indent=1)
PY
echo "CONFIRM-OK $NAME"
