// wbast — fact extractor for the WorldBuilder static checks.
//
// One run per translation unit.  Emits one JSON file with
//   * a declaration table (every declaration referenced from user code),
//   * records / enums defined in user code,
//   * for every function with a body in user code (template instantiations and
//     lambda call operators included): a structured statement/expression tree
//     with resolved references, and clang's CFG,
//   * a table of top-level macro expansions (WBAssert & friends) with the token
//     text of their arguments.
//
// usage: wbast <out.json> <user-prefix>[,<user-prefix>...] <file> -- <flags>
//
// "user code" = declarations whose expansion location is in a file whose path
// starts with one of the prefixes.

#include "clang/AST/ASTConsumer.h"
#include "clang/AST/ASTContext.h"
#include "clang/AST/DeclCXX.h"
#include "clang/AST/DeclTemplate.h"
#include "clang/AST/ExprCXX.h"
#include "clang/AST/RecursiveASTVisitor.h"
#include "clang/AST/StmtCXX.h"
#include "clang/Analysis/CFG.h"
#include "clang/Frontend/CompilerInstance.h"
#include "clang/Frontend/FrontendAction.h"
#include "clang/Index/USRGeneration.h"
#include "clang/Lex/MacroArgs.h"
#include "clang/Lex/PPCallbacks.h"
#include "clang/Lex/Preprocessor.h"
#include "clang/Tooling/CompilationDatabase.h"
#include "clang/Tooling/Tooling.h"
#include "llvm/ADT/SmallString.h"
#include "llvm/Support/JSON.h"
#include "llvm/Support/raw_ostream.h"

#include <map>
#include <set>
#include <string>
#include <vector>

using namespace clang;

namespace
{
  std::vector<std::string> user_prefixes;
  std::string out_path;

  struct MacroExp
  {
    std::string name;
    std::string file;
    unsigned line = 0;
    unsigned end_line = 0;
    std::vector<std::string> args;
  };

  struct Shared
  {
    std::map<unsigned, MacroExp> macro_by_loc; // raw encoding of expansion begin -> expansion
    std::vector<std::pair<std::string, std::pair<unsigned, unsigned>>> ndebug_regions;
  };

  bool is_user_path(llvm::StringRef p)
  {
    for (const auto &pre : user_prefixes)
      if (p.startswith(pre))
        return true;
    return false;
  }

  class MacroRecorder : public PPCallbacks
  {
    public:
      MacroRecorder(Preprocessor &pp, Shared &sh) : PP(pp), S(sh) {}

      void MacroExpands(const Token &MacroNameTok, const MacroDefinition &,
                        SourceRange Range, const MacroArgs *Args) override
      {
        SourceLocation loc = MacroNameTok.getLocation();
        if (loc.isMacroID())
          return; // nested expansion
        SourceManager &SM = PP.getSourceManager();
        PresumedLoc pl = SM.getPresumedLoc(loc);
        if (pl.isInvalid() || !is_user_path(pl.getFilename()))
          return;
        MacroExp e;
        e.name = MacroNameTok.getIdentifierInfo()->getName().str();
        e.file = pl.getFilename();
        e.line = pl.getLine();
        e.end_line = SM.getPresumedLoc(SM.getExpansionLoc(Range.getEnd())).getLine();
        if (Args)
          {
            for (unsigned i = 0; i < Args->getNumMacroArguments(); ++i)
              {
                std::string text;
                const Token *t = Args->getUnexpArgument(i);
                unsigned guard = 0;
                while (t && t->isNot(tok::eof) && guard++ < 4000)
                  {
                    if (!text.empty() && (t->hasLeadingSpace() || t->isAtStartOfLine()))
                      text += ' ';
                    text += PP.getSpelling(*t);
                    ++t;
                  }
                e.args.push_back(text);
                if (i >= 2) break;
              }
          }
        S.macro_by_loc[loc.getRawEncoding()] = e;
      }

    private:
      Preprocessor &PP;
      Shared &S;
  };

  class Dumper
  {
    public:
      Dumper(ASTContext &ctx, Shared &sh, llvm::raw_ostream &os)
        : Ctx(ctx), SM(ctx.getSourceManager()), S(sh), J(os, 0), PPol(ctx.getLangOpts())
      {
        PPol.SuppressTagKeyword = true;
        PPol.Bool = true;
        PPol.FullyQualifiedName = true;
        PPol.PrintCanonicalTypes = true;
      }

      ASTContext &Ctx;
      SourceManager &SM;
      Shared &S;
      llvm::json::OStream J;
      PrintingPolicy PPol;

      std::map<const Decl *, unsigned> decl_ids;
      std::vector<const Decl *> decl_list;
      std::map<const Stmt *, unsigned> stmt_ids;
      unsigned next_stmt = 1;
      std::vector<const FunctionDecl *> work;
      std::set<const FunctionDecl *> queued;
      std::vector<const CXXRecordDecl *> records;
      std::set<const CXXRecordDecl *> records_seen;
      std::vector<const EnumDecl *> enums;

      std::string type_str(QualType t)
      {
        if (t.isNull()) return "";
        return t.getCanonicalType().getAsString(PPol);
      }

      bool in_user_code(const Decl *d)
      {
        SourceLocation loc = SM.getExpansionLoc(d->getLocation());
        if (loc.isInvalid()) return false;
        PresumedLoc pl = SM.getPresumedLoc(loc);
        if (pl.isInvalid()) return false;
        return is_user_path(pl.getFilename());
      }

      unsigned decl_id(const Decl *d)
      {
        if (!d) return 0;
        d = d->getCanonicalDecl();
        auto it = decl_ids.find(d);
        if (it != decl_ids.end()) return it->second;
        decl_list.push_back(d);
        unsigned id = static_cast<unsigned>(decl_list.size());
        decl_ids[d] = id;
        return id;
      }

      void queue_function(const FunctionDecl *fd)
      {
        if (!fd) return;
        const FunctionDecl *def = nullptr;
        if (!fd->hasBody(def) || !def) return;
        if (def->isDependentContext()) return;
        if (!in_user_code(def)) return;
        if (queued.insert(def).second)
          work.push_back(def);
      }

      void note_record(const CXXRecordDecl *rd)
      {
        if (!rd || !rd->hasDefinition()) return;
        rd = rd->getDefinition();
        if (rd->isDependentContext()) return;
        if (!in_user_code(rd)) return;
        if (records_seen.insert(rd).second)
          records.push_back(rd);
      }

      // ---- locations -------------------------------------------------------
      void emit_loc(SourceLocation b)
      {
        SourceLocation e = SM.getExpansionLoc(b);
        PresumedLoc pl = SM.getPresumedLoc(e);
        if (pl.isValid())
          J.attribute("l", static_cast<int64_t>(pl.getLine()));
        if (b.isMacroID())
          {
            auto it = S.macro_by_loc.find(e.getRawEncoding());
            if (it != S.macro_by_loc.end())
              {
                J.attribute("m", it->second.name);
                // is the token spelled in a macro argument (i.e. user text)?
                SourceLocation sp = b;
                bool arg = false;
                unsigned guard = 0;
                while (sp.isMacroID() && guard++ < 32)
                  {
                    if (SM.isMacroArgExpansion(sp)) { arg = true; break; }
                    sp = SM.getImmediateMacroCallerLoc(sp);
                  }
                if (arg) J.attribute("ma", 1);
              }
          }
      }

      // ---- statements ------------------------------------------------------
      const Stmt *skip(const Stmt *s)
      {
        // collapse wrappers that carry no information for the rules
        while (s)
          {
            if (auto *e = dyn_cast<ImplicitCastExpr>(s)) { s = e->getSubExpr(); continue; }
            if (auto *e = dyn_cast<ParenExpr>(s)) { s = e->getSubExpr(); continue; }
            if (auto *e = dyn_cast<ExprWithCleanups>(s)) { s = e->getSubExpr(); continue; }
            if (auto *e = dyn_cast<MaterializeTemporaryExpr>(s)) { s = e->getSubExpr(); continue; }
            if (auto *e = dyn_cast<CXXBindTemporaryExpr>(s)) { s = e->getSubExpr(); continue; }
            if (auto *e = dyn_cast<ConstantExpr>(s)) { s = e->getSubExpr(); continue; }
            if (auto *e = dyn_cast<SubstNonTypeTemplateParmExpr>(s)) { s = e->getReplacement(); continue; }
            if (auto *e = dyn_cast<CXXStdInitializerListExpr>(s)) { s = e->getSubExpr(); continue; }
            break;
          }
        return s;
      }

      unsigned sid(const Stmt *s)
      {
        auto it = stmt_ids.find(s);
        if (it != stmt_ids.end()) return it->second;
        unsigned id = next_stmt++;
        stmt_ids[s] = id;
        return id;
      }

      void map_chain(const Stmt *outer, const Stmt *inner)
      {
        // all wrappers between outer and inner share inner's id
        unsigned id = sid(inner);
        const Stmt *s = outer;
        while (s && s != inner)
          {
            stmt_ids[s] = id;
            const Stmt *n = nullptr;
            if (auto *e = dyn_cast<ImplicitCastExpr>(s)) n = e->getSubExpr();
            else if (auto *e = dyn_cast<ParenExpr>(s)) n = e->getSubExpr();
            else if (auto *e = dyn_cast<ExprWithCleanups>(s)) n = e->getSubExpr();
            else if (auto *e = dyn_cast<MaterializeTemporaryExpr>(s)) n = e->getSubExpr();
            else if (auto *e = dyn_cast<CXXBindTemporaryExpr>(s)) n = e->getSubExpr();
            else if (auto *e = dyn_cast<ConstantExpr>(s)) n = e->getSubExpr();
            else if (auto *e = dyn_cast<SubstNonTypeTemplateParmExpr>(s)) n = e->getReplacement();
            else if (auto *e = dyn_cast<CXXStdInitializerListExpr>(s)) n = e->getSubExpr();
            s = n;
          }
      }

      void child(const Stmt *s)
      {
        if (!s) { J.value(nullptr); return; }
        dump_stmt(s);
      }

      void dump_var(const VarDecl *vd)
      {
        J.object([&]
        {
          J.attribute("k", "VarDecl");
          J.attribute("r", static_cast<int64_t>(decl_id(vd)));
          J.attribute("n", vd->getNameAsString());
          J.attribute("t", type_str(vd->getType()));
          emit_loc(vd->getLocation());
          if (vd->hasInit())
            {
              J.attribute("is", vd->getInitStyle() == VarDecl::CInit ? "c" : (vd->getInitStyle() == VarDecl::CallInit ? "call" : "list"));
              J.attributeArray("c", [&] { child(vd->getInit()); });
            }
        });
      }

      void dump_stmt(const Stmt *outer)
      {
        const Stmt *s = skip(outer);
        if (s != outer) map_chain(outer, s);
        unsigned id = sid(s);
        J.object([&]
        {
          J.attribute("i", static_cast<int64_t>(id));
          J.attribute("k", s->getStmtClassName());
          emit_loc(s->getBeginLoc());
          if (auto *e = dyn_cast<Expr>(s))
            {
              J.attribute("t", type_str(e->getType()));
              if (e->isLValue()) J.attribute("lv", 1);
            }

          // ---------- kind specific ----------
          if (auto *e = dyn_cast<DeclRefExpr>(s))
            {
              J.attribute("r", static_cast<int64_t>(decl_id(e->getDecl())));
              J.attribute("n", e->getDecl()->getNameAsString());
              if (auto *fd = dyn_cast<FunctionDecl>(e->getDecl())) queue_function(fd);
              return;
            }
          if (auto *e = dyn_cast<MemberExpr>(s))
            {
              J.attribute("r", static_cast<int64_t>(decl_id(e->getMemberDecl())));
              J.attribute("n", e->getMemberDecl()->getNameAsString());
              if (e->isArrow()) J.attribute("arrow", 1);
              if (auto *fd = dyn_cast<FunctionDecl>(e->getMemberDecl())) queue_function(fd);
              J.attributeArray("c", [&] { child(e->getBase()); });
              return;
            }
          if (auto *e = dyn_cast<IntegerLiteral>(s))
            {
              J.attribute("v", e->getValue().getSExtValue());
              return;
            }
          if (auto *e = dyn_cast<FloatingLiteral>(s))
            {
              J.attribute("v", e->getValueAsApproximateDouble());
              llvm::SmallString<32> str;
              e->getValue().toString(str);
              J.attribute("vs", str.str());
              return;
            }
          if (auto *e = dyn_cast<CXXBoolLiteralExpr>(s))
            {
              J.attribute("v", e->getValue());
              return;
            }
          if (auto *e = dyn_cast<StringLiteral>(s))
            {
              if (e->isAscii() || e->isUTF8()) J.attribute("v", e->getString());
              return;
            }
          if (auto *e = dyn_cast<CharacterLiteral>(s))
            {
              J.attribute("v", static_cast<int64_t>(e->getValue()));
              return;
            }
          if (isa<CXXNullPtrLiteralExpr>(s) || isa<GNUNullExpr>(s))
            return;
          if (auto *e = dyn_cast<CXXThisExpr>(s))
            {
              if (e->isImplicit()) J.attribute("implicit", 1);
              return;
            }
          if (auto *e = dyn_cast<UnaryOperator>(s))
            {
              J.attribute("op", UnaryOperator::getOpcodeStr(e->getOpcode()));
              if (e->isPostfix()) J.attribute("post", 1);
              J.attributeArray("c", [&] { child(e->getSubExpr()); });
              return;
            }
          if (auto *e = dyn_cast<BinaryOperator>(s))
            {
              J.attribute("op", e->getOpcodeStr());
              J.attributeArray("c", [&] { child(e->getLHS()); child(e->getRHS()); });
              return;
            }
          if (auto *e = dyn_cast<ConditionalOperator>(s))
            {
              J.attributeArray("c", [&] { child(e->getCond()); child(e->getTrueExpr()); child(e->getFalseExpr()); });
              return;
            }
          if (auto *e = dyn_cast<ArraySubscriptExpr>(s))
            {
              J.attributeArray("c", [&] { child(e->getBase()); child(e->getIdx()); });
              return;
            }
          if (auto *e = dyn_cast<CXXOperatorCallExpr>(s))
            {
              J.attribute("op", getOperatorSpelling(e->getOperator()));
              if (const FunctionDecl *fd = e->getDirectCallee())
                {
                  J.attribute("callee", static_cast<int64_t>(decl_id(fd)));
                  if (isa<CXXMethodDecl>(fd)) J.attribute("memop", 1);
                  queue_function(fd);
                }
              J.attributeArray("c", [&] { for (const Expr *a : e->arguments()) child(a); });
              return;
            }
          if (auto *e = dyn_cast<CXXMemberCallExpr>(s))
            {
              if (const CXXMethodDecl *md = e->getMethodDecl())
                {
                  J.attribute("callee", static_cast<int64_t>(decl_id(md)));
                  queue_function(md);
                  if (md->isVirtual())
                    {
                      // a qualified call X::f() is non-virtual
                      bool qualified = false;
                      if (auto *me = dyn_cast<MemberExpr>(e->getCallee()->IgnoreParenImpCasts()))
                        qualified = me->hasQualifier();
                      if (!qualified) J.attribute("virt", 1);
                    }
                }
              J.attributeArray("c", [&]
              {
                child(e->getCallee());
                for (const Expr *a : e->arguments()) child(a);
              });
              return;
            }
          if (auto *e = dyn_cast<CallExpr>(s))
            {
              if (const FunctionDecl *fd = e->getDirectCallee())
                {
                  J.attribute("callee", static_cast<int64_t>(decl_id(fd)));
                  queue_function(fd);
                }
              J.attributeArray("c", [&]
              {
                child(e->getCallee());
                for (const Expr *a : e->arguments()) child(a);
              });
              return;
            }
          if (auto *e = dyn_cast<CXXConstructExpr>(s))
            {
              J.attribute("ctor", static_cast<int64_t>(decl_id(e->getConstructor())));
              queue_function(e->getConstructor());
              if (e->isListInitialization()) J.attribute("list", 1);
              if (e->isElidable()) J.attribute("elidable", 1);
              if (e->getConstructor()->isCopyOrMoveConstructor()) J.attribute("copy", 1);
              if (isa<CXXTemporaryObjectExpr>(e)) J.attribute("temp", 1);
              J.attributeArray("c", [&] { for (const Expr *a : e->arguments()) child(a); });
              return;
            }
          if (auto *e = dyn_cast<CXXDefaultArgExpr>(s))
            {
              J.attributeArray("c", [&] { child(e->getExpr()); });
              return;
            }
          if (auto *e = dyn_cast<CXXDefaultInitExpr>(s))
            {
              J.attributeArray("c", [&] { child(e->getExpr()); });
              return;
            }
          if (auto *e = dyn_cast<ExplicitCastExpr>(s))
            {
              J.attribute("ck", e->getCastKindName());
              J.attribute("from", type_str(e->getSubExpr()->getType()));
              J.attributeArray("c", [&] { child(e->getSubExpr()); });
              return;
            }
          if (auto *e = dyn_cast<InitListExpr>(s))
            {
              const InitListExpr *sem = e->isSemanticForm() ? e : (e->getSemanticForm() ? e->getSemanticForm() : e);
              if (sem != e) stmt_ids[sem] = id;
              J.attributeArray("c", [&] { for (const Expr *a : sem->inits()) child(a); });
              return;
            }
          if (auto *e = dyn_cast<CXXNewExpr>(s))
            {
              J.attribute("alloc", type_str(e->getAllocatedType()));
              J.attributeArray("c", [&]
              {
                if (e->getInitializer()) child(e->getInitializer());
              });
              return;
            }
          if (auto *e = dyn_cast<CXXDeleteExpr>(s))
            {
              J.attributeArray("c", [&] { child(e->getArgument()); });
              return;
            }
          if (auto *e = dyn_cast<CXXThrowExpr>(s))
            {
              if (e->getSubExpr()) J.attribute("tt", type_str(e->getSubExpr()->getType()));
              J.attributeArray("c", [&] { if (e->getSubExpr()) child(e->getSubExpr()); });
              return;
            }
          if (auto *e = dyn_cast<LambdaExpr>(s))
            {
              const CXXRecordDecl *cls = e->getLambdaClass();
              const CXXMethodDecl *op = cls->getLambdaCallOperator();
              if (FunctionTemplateDecl *ft = cls->getDependentLambdaCallOperator())
                {
                  J.attributeArray("lams", [&]
                  {
                    for (FunctionDecl *sp : ft->specializations())
                      {
                        queue_function(sp);
                        J.value(static_cast<int64_t>(decl_id(sp)));
                      }
                  });
                }
              else if (op)
                {
                  queue_function(op);
                  J.attribute("lam", static_cast<int64_t>(decl_id(op)));
                }
              J.attribute("cls", static_cast<int64_t>(decl_id(cls)));
              J.attributeArray("caps", [&]
              {
                for (const LambdaCapture &c : e->captures())
                  {
                    J.object([&]
                    {
                      if (c.capturesThis()) J.attribute("this", 1);
                      else if (c.capturesVariable())
                        {
                          J.attribute("r", static_cast<int64_t>(decl_id(c.getCapturedVar())));
                          J.attribute("n", c.getCapturedVar()->getNameAsString());
                        }
                      if (c.getCaptureKind() == LCK_ByRef) J.attribute("byref", 1);
                      if (c.isImplicit()) J.attribute("implicit", 1);
                    });
                  }
              });
              J.attributeArray("c", [&] { for (const Expr *ci : e->capture_inits()) child(ci); });
              return;
            }
          if (auto *e = dyn_cast<UnaryExprOrTypeTraitExpr>(s))
            {
              J.attribute("op", "sizeof/alignof");
              return;
            }
          if (auto *e = dyn_cast<CXXPseudoDestructorExpr>(s))
            {
              J.attributeArray("c", [&] { child(e->getBase()); });
              return;
            }

          // ---------- statements ----------
          if (auto *st = dyn_cast<CompoundStmt>(s))
            {
              J.attributeArray("c", [&] { for (const Stmt *c : st->body()) child(c); });
              return;
            }
          if (auto *st = dyn_cast<DeclStmt>(s))
            {
              J.attributeArray("c", [&]
              {
                for (const Decl *d : st->decls())
                  {
                    if (auto *vd = dyn_cast<VarDecl>(d)) dump_var(vd);
                    else if (auto *rd = dyn_cast<CXXRecordDecl>(d)) { note_record(rd); }
                  }
              });
              return;
            }
          if (auto *st = dyn_cast<IfStmt>(s))
            {
              J.attributeArray("c", [&]
              {
                child(st->getCond()); child(st->getThen()); child(st->getElse());
              });
              if (st->getInit() || st->getConditionVariable())
                J.attributeArray("pre", [&]
              {
                if (st->getInit()) child(st->getInit());
                if (st->getConditionVariable()) dump_var(st->getConditionVariable());
              });
              return;
            }
          if (auto *st = dyn_cast<ForStmt>(s))
            {
              J.attributeArray("c", [&]
              {
                child(st->getInit()); child(st->getCond()); child(st->getInc()); child(st->getBody());
              });
              return;
            }
          if (auto *st = dyn_cast<CXXForRangeStmt>(s))
            {
              J.attributeArray("c", [&]
              {
                dump_var(st->getLoopVariable());
                child(st->getRangeInit());
                child(st->getBody());
              });
              J.attributeArray("hidden", [&]
              {
                child(st->getRangeStmt()); child(st->getBeginStmt()); child(st->getEndStmt());
                child(st->getCond()); child(st->getInc()); child(st->getLoopVarStmt());
              });
              return;
            }
          if (auto *st = dyn_cast<WhileStmt>(s))
            {
              J.attributeArray("c", [&] { child(st->getCond()); child(st->getBody()); });
              return;
            }
          if (auto *st = dyn_cast<DoStmt>(s))
            {
              J.attributeArray("c", [&] { child(st->getBody()); child(st->getCond()); });
              return;
            }
          if (auto *st = dyn_cast<SwitchStmt>(s))
            {
              J.attributeArray("c", [&] { child(st->getCond()); child(st->getBody()); });
              return;
            }
          if (auto *st = dyn_cast<CaseStmt>(s))
            {
              // the evaluated label (a named constexpr label has no literal to read it from)
              bool is_enumerator = false;
              if (st->getLHS())
                if (auto *dr = dyn_cast<DeclRefExpr>(st->getLHS()->IgnoreParenCasts()))
                  is_enumerator = isa<EnumConstantDecl>(dr->getDecl());
              if (st->getLHS() && !is_enumerator && !st->getLHS()->isValueDependent())
                {
                  Expr::EvalResult er;
                  if (st->getLHS()->EvaluateAsInt(er, Ctx))
                    J.attribute("cv", (int64_t) er.Val.getInt().getExtValue());
                }
              J.attributeArray("c", [&] { child(st->getLHS()); child(st->getSubStmt()); });
              return;
            }
          if (auto *st = dyn_cast<DefaultStmt>(s))
            {
              J.attributeArray("c", [&] { child(st->getSubStmt()); });
              return;
            }
          if (auto *st = dyn_cast<ReturnStmt>(s))
            {
              J.attributeArray("c", [&] { if (st->getRetValue()) child(st->getRetValue()); });
              return;
            }
          if (auto *st = dyn_cast<CXXTryStmt>(s))
            {
              J.attributeArray("c", [&]
              {
                child(st->getTryBlock());
                for (unsigned i = 0; i < st->getNumHandlers(); ++i) child(st->getHandler(i));
              });
              return;
            }
          if (auto *st = dyn_cast<CXXCatchStmt>(s))
            {
              if (st->getExceptionDecl())
                J.attribute("ct", type_str(st->getCaughtType()));
              J.attributeArray("c", [&] { child(st->getHandlerBlock()); });
              return;
            }
          if (isa<GCCAsmStmt>(s) || isa<MSAsmStmt>(s))
            {
              J.attribute("asm", 1);
              return;
            }
          // generic fallback
          J.attributeArray("c", [&] { for (const Stmt *c : s->children()) child(c); });
        });
      }

      // ---- functions -------------------------------------------------------
      void dump_cfg(const FunctionDecl *fd)
      {
        CFG::BuildOptions opts;
        opts.setAllAlwaysAdd();
        opts.AddImplicitDtors = false;
        opts.AddTemporaryDtors = false;
        opts.AddInitializers = true;
        std::unique_ptr<CFG> cfg = CFG::buildCFG(fd, fd->getBody(), &Ctx, opts);
        if (!cfg)
          {
            J.attribute("cfg", nullptr);
            return;
          }
        J.attributeObject("cfg", [&]
        {
          J.attribute("entry", static_cast<int64_t>(cfg->getEntry().getBlockID()));
          J.attribute("exit", static_cast<int64_t>(cfg->getExit().getBlockID()));
          J.attributeArray("blocks", [&]
          {
            for (const CFGBlock *b : *cfg)
              {
                J.object([&]
                {
                  J.attribute("id", static_cast<int64_t>(b->getBlockID()));
                  J.attributeArray("s", [&]
                  {
                    for (const CFGElement &el : *b)
                      {
                        if (auto cs = el.getAs<CFGStmt>())
                          {
                            auto it = stmt_ids.find(cs->getStmt());
                            if (it != stmt_ids.end())
                              J.value(static_cast<int64_t>(it->second));
                          }
                        else if (auto ci = el.getAs<CFGInitializer>())
                          {
                            auto it = stmt_ids.find(ci->getInitializer()->getInit());
                            if (it != stmt_ids.end())
                              J.value(static_cast<int64_t>(it->second));
                          }
                      }
                  });
                  if (const Stmt *t = b->getTerminatorStmt())
                    {
                      auto it = stmt_ids.find(t);
                      if (it != stmt_ids.end()) J.attribute("t", static_cast<int64_t>(it->second));
                      J.attribute("tk", t->getStmtClassName());
                    }
                  if (const Stmt *tc = b->getTerminatorCondition())
                    {
                      auto it = stmt_ids.find(tc);
                      if (it != stmt_ids.end()) J.attribute("tc", static_cast<int64_t>(it->second));
                    }
                  if (const Stmt *lab = b->getLabel())
                    {
                      auto it = stmt_ids.find(lab);
                      if (it != stmt_ids.end()) J.attribute("label", static_cast<int64_t>(it->second));
                    }
                  if (b->hasNoReturnElement()) J.attribute("noreturn", 1);
                  J.attributeArray("succ", [&]
                  {
                    for (auto si = b->succ_begin(); si != b->succ_end(); ++si)
                      {
                        if (const CFGBlock *sb = si->getReachableBlock())
                          J.value(static_cast<int64_t>(sb->getBlockID()));
                        else
                          J.value(nullptr);
                      }
                  });
                });
              }
          });
        });
      }

      void dump_function(const FunctionDecl *fd)
      {
        J.object([&]
        {
          J.attribute("id", static_cast<int64_t>(decl_id(fd)));
          J.attribute("qn", fd->getQualifiedNameAsString());
          J.attribute("n", fd->getNameAsString());
          PresumedLoc pl = SM.getPresumedLoc(SM.getExpansionLoc(fd->getLocation()));
          J.attribute("file", pl.isValid() ? pl.getFilename() : "");
          J.attribute("line", static_cast<int64_t>(pl.isValid() ? pl.getLine() : 0));
          PresumedLoc pe = SM.getPresumedLoc(SM.getExpansionLoc(fd->getEndLoc()));
          J.attribute("endline", static_cast<int64_t>(pe.isValid() ? pe.getLine() : 0));
          if (fd->isTemplateInstantiation())
            {
              J.attribute("inst", 1);
              if (const TemplateArgumentList *tal = fd->getTemplateSpecializationArgs())
                {
                  std::string ta;
                  llvm::raw_string_ostream tos(ta);
                  printTemplateArgumentList(tos, tal->asArray(), PPol);
                  J.attribute("targs", tos.str());
                }
            }
          J.attributeArray("params", [&]
          {
            for (const ParmVarDecl *p : fd->parameters())
              J.value(static_cast<int64_t>(decl_id(p)));
          });
          if (auto *cd = dyn_cast<CXXConstructorDecl>(fd))
            {
              J.attributeArray("inits", [&]
              {
                for (const CXXCtorInitializer *ci : cd->inits())
                  {
                    J.object([&]
                    {
                      if (ci->isAnyMemberInitializer())
                        {
                          J.attribute("field", static_cast<int64_t>(decl_id(ci->getAnyMember())));
                          J.attribute("n", ci->getAnyMember()->getNameAsString());
                        }
                      else if (ci->isBaseInitializer())
                        J.attribute("base", type_str(QualType(ci->getBaseClass(), 0)));
                      else if (ci->isDelegatingInitializer())
                        J.attribute("delegating", 1);
                      if (ci->isWritten()) J.attribute("written", 1);
                      J.attributeArray("c", [&] { child(ci->getInit()); });
                    });
                  }
              });
            }
          J.attributeArray("body", [&] { child(fd->getBody()); });
          dump_cfg(fd);
        });
      }

      // ---- declaration table ----------------------------------------------
      std::string usr_of(const Decl *d)
      {
        llvm::SmallString<256> buf;
        if (index::generateUSRForDecl(d, buf)) return "";
        std::string u = buf.str().str();
        // entities of an anonymous namespace / with internal linkage: clang's USR names the file by its base name only,
        // so `linear.cc` of three model directories collide in a unity translation unit. Qualify by the declaring file.
        if (u.find("@aN@") != std::string::npos)
          {
            PresumedLoc pl = SM.getPresumedLoc(SM.getExpansionLoc(d->getLocation()));
            if (pl.isValid())
              u += std::string("|") + pl.getFilename();
          }
        return u;
      }

      void emit_param_modes(const FunctionDecl *fd)
      {
        J.attributeArray("pt", [&]
        {
          for (const ParmVarDecl *p : fd->parameters())
            {
              QualType t = p->getType();
              J.object([&]
              {
                J.attribute("t", type_str(t));
                const char *mode = "val";
                if (t->isLValueReferenceType())
                  mode = t->getPointeeType().isConstQualified() ? "cref" : "ref";
                else if (t->isRValueReferenceType())
                  mode = "rref";
                else if (t->isPointerType())
                  mode = t->getPointeeType().isConstQualified() ? "cptr" : "ptr";
                J.attribute("mode", mode);
                if (p->hasDefaultArg()) J.attribute("def", 1);
              });
            }
        });
      }

      void dump_decl(const Decl *d, unsigned id)
      {
        J.object([&]
        {
          J.attribute("id", static_cast<int64_t>(id));
          J.attribute("k", d->getDeclKindName());
          if (auto *nd = dyn_cast<NamedDecl>(d))
            {
              J.attribute("n", nd->getNameAsString());
              J.attribute("qn", nd->getQualifiedNameAsString());
            }
          bool user = in_user_code(d);
          if (user) J.attribute("user", 1);
          PresumedLoc pl = SM.getPresumedLoc(SM.getExpansionLoc(d->getLocation()));
          if (pl.isValid())
            {
              J.attribute("file", pl.getFilename());
              J.attribute("line", static_cast<int64_t>(pl.getLine()));
            }
          if (auto *vd = dyn_cast<VarDecl>(d))
            {
              QualType t = vd->getType();
              J.attribute("t", type_str(t));
              const char *st = "local";
              if (isa<ParmVarDecl>(vd)) st = "param";
              else if (vd->isStaticLocal()) st = "static_local";
              else if (vd->isStaticDataMember()) st = "static_member";
              else if (vd->hasGlobalStorage()) st = "global";
              J.attribute("storage", st);
              if (t->isReferenceType())
                {
                  J.attribute("ref", t->isRValueReferenceType() ? "rref" : "ref");
                  if (t->getPointeeType().isConstQualified()) J.attribute("pconst", 1);
                }
              else if (t->isPointerType())
                {
                  J.attribute("ptr", 1);
                  if (t->getPointeeType().isConstQualified()) J.attribute("pconst", 1);
                }
              if (t.isConstQualified()) J.attribute("const", 1);
              if (vd->isConstexpr()) J.attribute("constexpr", 1);
              if (!isa<ParmVarDecl>(vd) && vd->hasGlobalStorage())
                J.attribute("usr", usr_of(vd));
              if (auto *pv = dyn_cast<ParmVarDecl>(vd))
                J.attribute("pidx", static_cast<int64_t>(pv->getFunctionScopeIndex()));
              if (const auto *dc = dyn_cast_or_null<FunctionDecl>(vd->getDeclContext()))
                J.attribute("fn", static_cast<int64_t>(decl_id(dc)));
            }
          else if (auto *fld = dyn_cast<FieldDecl>(d))
            {
              QualType t = fld->getType();
              J.attribute("t", type_str(t));
              J.attribute("storage", "field");
              if (fld->isMutable()) J.attribute("mutable", 1);
              if (fld->hasInClassInitializer()) J.attribute("dinit", 1);
              if (t->isReferenceType())
                {
                  J.attribute("ref", "ref");
                  if (t->getPointeeType().isConstQualified()) J.attribute("pconst", 1);
                }
              else if (t->isPointerType())
                {
                  J.attribute("ptr", 1);
                  if (t->getPointeeType().isConstQualified()) J.attribute("pconst", 1);
                }
              if (t.isConstQualified()) J.attribute("const", 1);
              J.attribute("cls", fld->getParent()->getQualifiedNameAsString());
              J.attribute("usr", usr_of(fld));
              J.attribute("fidx", static_cast<int64_t>(fld->getFieldIndex()));
            }
          else if (auto *fd = dyn_cast<FunctionDecl>(d))
            {
              J.attribute("t", type_str(fd->getType()));
              J.attribute("ret", type_str(fd->getReturnType()));
              J.attribute("usr", usr_of(fd));
              emit_param_modes(fd);
              const FunctionDecl *def = nullptr;
              if (fd->hasBody(def) && def && !def->isDependentContext() && in_user_code(def))
                J.attribute("hasbody", 1);
              if (fd->isNoReturn()) J.attribute("noreturn", 1);
              if (fd->isImplicit()) J.attribute("implicit", 1);
              if (fd->isDefaulted()) J.attribute("defaulted", 1);
              if (fd->isVariadic()) J.attribute("variadic", 1);
              if (fd->isExternC()) J.attribute("externc", 1);
              if (fd->isOverloadedOperator()) J.attribute("oo", getOperatorSpelling(fd->getOverloadedOperator()));
              if (auto *md = dyn_cast<CXXMethodDecl>(fd))
                {
                  J.attribute("cls", md->getParent()->getQualifiedNameAsString());
                  J.attribute("clsid", static_cast<int64_t>(decl_id(md->getParent())));
                  if (md->isConst()) J.attribute("const", 1);
                  if (md->isStatic()) J.attribute("static", 1);
                  if (md->isVirtual()) J.attribute("virtual", 1);
                  if (md->isPure()) J.attribute("pure", 1);
                  if (md->getParent()->isLambda()) J.attribute("lambda", 1);
                  if (md->size_overridden_methods() > 0)
                    J.attributeArray("ovr", [&]
                  {
                    for (const CXXMethodDecl *o : md->overridden_methods())
                      J.value(static_cast<int64_t>(decl_id(o)));
                  });
                  if (isa<CXXConstructorDecl>(md)) J.attribute("ctor", 1);
                  if (isa<CXXDestructorDecl>(md)) J.attribute("dtor", 1);
                  if (isa<CXXConversionDecl>(md)) J.attribute("conv", 1);
                  note_record(md->getParent());
                }
            }
          else if (auto *ec = dyn_cast<EnumConstantDecl>(d))
            {
              J.attribute("t", type_str(ec->getType()));
              J.attribute("v", ec->getInitVal().getExtValue());
              J.attribute("usr", usr_of(ec));
            }
          else if (auto *rd = dyn_cast<CXXRecordDecl>(d))
            {
              J.attribute("usr", usr_of(rd));
              if (rd->isLambda()) J.attribute("lambda", 1);
              note_record(rd);
            }
        });
      }

      void dump_record(const CXXRecordDecl *rd)
      {
        J.object([&]
        {
          J.attribute("id", static_cast<int64_t>(decl_id(rd)));
          J.attribute("qn", rd->getQualifiedNameAsString());
          J.attribute("t", type_str(Ctx.getRecordType(rd)));
          J.attribute("usr", usr_of(rd));
          PresumedLoc pl = SM.getPresumedLoc(SM.getExpansionLoc(rd->getLocation()));
          if (pl.isValid())
            {
              J.attribute("file", pl.getFilename());
              J.attribute("line", static_cast<int64_t>(pl.getLine()));
            }
          if (rd->isLambda()) J.attribute("lambda", 1);
          if (rd->isAbstract()) J.attribute("abstract", 1);
          J.attributeArray("bases", [&]
          {
            for (const CXXBaseSpecifier &b : rd->bases())
              {
                if (const CXXRecordDecl *bd = b.getType()->getAsCXXRecordDecl())
                  {
                    J.object([&]
                    {
                      J.attribute("qn", bd->getQualifiedNameAsString());
                      J.attribute("id", static_cast<int64_t>(decl_id(bd)));
                    });
                    note_record(bd);
                  }
              }
          });
          J.attributeArray("fields", [&]
          {
            for (const FieldDecl *f : rd->fields())
              J.value(static_cast<int64_t>(decl_id(f)));
          });
          J.attributeArray("methods", [&]
          {
            for (const CXXMethodDecl *m : rd->methods())
              {
                if (m->isImplicit()) continue;
                J.value(static_cast<int64_t>(decl_id(m)));
              }
          });
          J.attributeArray("statics", [&]
          {
            for (const Decl *d : rd->decls())
              if (auto *vd = dyn_cast<VarDecl>(d))
                J.value(static_cast<int64_t>(decl_id(vd)));
          });
        });
      }
  };

  class Collector : public RecursiveASTVisitor<Collector>
  {
    public:
      explicit Collector(Dumper &d) : D(d) {}
      bool shouldVisitTemplateInstantiations() const { return true; }
      bool shouldVisitImplicitCode() const { return false; }

      bool VisitFunctionDecl(FunctionDecl *fd)
      {
        if (fd->isThisDeclarationADefinition())
          D.queue_function(fd);
        return true;
      }
      bool VisitCXXRecordDecl(CXXRecordDecl *rd)
      {
        if (rd->isThisDeclarationADefinition())
          D.note_record(rd);
        return true;
      }
      bool VisitEnumDecl(EnumDecl *ed)
      {
        if (ed->isThisDeclarationADefinition() && D.in_user_code(ed))
          D.enums.push_back(ed);
        return true;
      }
      bool VisitVarDecl(VarDecl *vd)
      {
        if (vd->hasGlobalStorage() && !vd->isStaticLocal() && D.in_user_code(vd)
            && !vd->getDeclContext()->isDependentContext())
          globals.push_back(vd);
        return true;
      }
      std::vector<const VarDecl *> globals;

    private:
      Dumper &D;
  };

  class Consumer : public ASTConsumer
  {
    public:
      Consumer(Shared &sh) : S(sh) {}
      void HandleTranslationUnit(ASTContext &ctx) override
      {
        std::error_code ec;
        llvm::raw_fd_ostream os(out_path, ec);
        if (ec)
          {
            llvm::errs() << "cannot open " << out_path << "\n";
            return;
          }
        Dumper D(ctx, S, os);
        Collector C(D);
        C.TraverseDecl(ctx.getTranslationUnitDecl());

        D.J.object([&]
        {
          D.J.attribute("errors", static_cast<int64_t>(ctx.getDiagnostics().getNumErrors()));
          D.J.attributeArray("functions", [&]
          {
            for (size_t i = 0; i < D.work.size(); ++i) // grows while dumping (lambdas, instantiations)
              D.dump_function(D.work[i]);
          });
          D.J.attributeArray("globals", [&]
          {
            for (const VarDecl *vd : C.globals)
              {
                D.J.object([&]
                {
                  D.J.attribute("r", static_cast<int64_t>(D.decl_id(vd)));
                  D.J.attributeArray("c", [&] { if (vd->hasInit()) D.child(vd->getInit()); });
                });
              }
          });
          D.J.attributeArray("enums", [&]
          {
            for (const EnumDecl *ed : D.enums)
              {
                D.J.object([&]
                {
                  D.J.attribute("qn", ed->getQualifiedNameAsString());
                  D.J.attributeArray("consts", [&]
                  {
                    for (const EnumConstantDecl *c : ed->enumerators())
                      D.J.object([&]
                    {
                      D.J.attribute("id", static_cast<int64_t>(D.decl_id(c)));
                      D.J.attribute("n", c->getNameAsString());
                      D.J.attribute("v", c->getInitVal().getExtValue());
                    });
                  });
                });
              }
          });
          // records may grow while decls are dumped; decls may grow while records are dumped
          // -> iterate to a fixpoint, emitting into two arrays in sequence is not possible with a
          // streaming writer, so first settle the sets.
          {
            std::string sink_buf;
            llvm::raw_string_ostream sink(sink_buf);
            size_t nd = 0, nr = 0;
            // dry run to discover everything reachable from the tables
            Dumper *real = &D;
            (void)real;
            bool changed = true;
            while (changed)
              {
                changed = false;
                while (nr < D.records.size())
                  {
                    const CXXRecordDecl *rd = D.records[nr++];
                    for (const CXXBaseSpecifier &b : rd->bases())
                      if (const CXXRecordDecl *bd = b.getType()->getAsCXXRecordDecl())
                        { D.decl_id(bd); D.note_record(bd); }
                    for (const FieldDecl *f : rd->fields()) D.decl_id(f);
                    for (const CXXMethodDecl *m : rd->methods())
                      if (!m->isImplicit()) D.decl_id(m);
                    for (const Decl *d : rd->decls())
                      if (auto *vd = dyn_cast<VarDecl>(d)) D.decl_id(vd);
                    D.decl_id(rd);
                    changed = true;
                  }
                while (nd < D.decl_list.size())
                  {
                    const Decl *d = D.decl_list[nd++];
                    if (auto *md = dyn_cast<CXXMethodDecl>(d))
                      {
                        D.decl_id(md->getParent());
                        D.note_record(md->getParent());
                        for (const CXXMethodDecl *o : md->overridden_methods()) D.decl_id(o);
                      }
                    if (auto *fd = dyn_cast<FunctionDecl>(d))
                      for (const ParmVarDecl *p : fd->parameters()) (void)p;
                    if (auto *vd = dyn_cast<VarDecl>(d))
                      if (const auto *dc = dyn_cast_or_null<FunctionDecl>(vd->getDeclContext()))
                        D.decl_id(dc);
                    if (auto *rd = dyn_cast<CXXRecordDecl>(d)) D.note_record(rd);
                    changed = true;
                  }
              }
          }
          D.J.attributeArray("records", [&]
          {
            for (size_t i = 0; i < D.records.size(); ++i)
              D.dump_record(D.records[i]);
          });
          D.J.attributeArray("decls", [&]
          {
            for (size_t i = 0; i < D.decl_list.size(); ++i)
              D.dump_decl(D.decl_list[i], static_cast<unsigned>(i + 1));
          });
          D.J.attributeArray("macros", [&]
          {
            for (const auto &kv : S.macro_by_loc)
              {
                const MacroExp &e = kv.second;
                if (e.name.rfind("WB", 0) != 0) continue;
                D.J.object([&]
                {
                  D.J.attribute("name", e.name);
                  D.J.attribute("file", e.file);
                  D.J.attribute("line", static_cast<int64_t>(e.line));
                  D.J.attribute("endline", static_cast<int64_t>(e.end_line));
                  D.J.attributeArray("args", [&] { for (const auto &a : e.args) D.J.value(a); });
                });
              }
          });
        });
        os << "\n";
      }

    private:
      Shared &S;
  };

  class Action : public ASTFrontendAction
  {
    public:
      std::unique_ptr<ASTConsumer> CreateASTConsumer(CompilerInstance &CI, llvm::StringRef) override
      {
        CI.getPreprocessor().addPPCallbacks(std::make_unique<MacroRecorder>(CI.getPreprocessor(), shared));
        return std::make_unique<Consumer>(shared);
      }

    private:
      Shared shared;
  };
} // namespace

int main(int argc, const char **argv)
{
  if (argc < 5)
    {
      llvm::errs() << "usage: wbast <out.json> <prefix,prefix> <file> -- <flags>\n";
      return 2;
    }
  out_path = argv[1];
  {
    std::string p = argv[2];
    size_t pos = 0;
    while (pos != std::string::npos)
      {
        size_t n = p.find(',', pos);
        std::string item = p.substr(pos, n == std::string::npos ? n : n - pos);
        if (!item.empty()) user_prefixes.push_back(item);
        pos = n == std::string::npos ? n : n + 1;
      }
  }
  std::string file = argv[3];
  std::vector<std::string> flags;
  bool after = false;
  for (int i = 4; i < argc; ++i)
    {
      if (!after)
        {
          if (std::string(argv[i]) == "--") after = true;
          continue;
        }
      flags.push_back(argv[i]);
    }
  clang::tooling::FixedCompilationDatabase db(".", flags);
  clang::tooling::ClangTool tool(db, {file});
  int rc = tool.run(clang::tooling::newFrontendActionFactory<Action>().get());
  return rc;
}
